#!/bin/sh
# Offline set-up: the checks only need /venv (with the repo installed in
# editable mode) plus hypothesis, which is installed from the local wheelhouse
# if it is missing.
set -e
cd "$(dirname "$0")"
if ! /venv/bin/python -c "import hypothesis" 2>/dev/null; then
    /venv/bin/pip install --no-index --find-links /opt/veriftools/wheels hypothesis >/dev/null 2>&1 || true
fi
/venv/bin/python -c "import mistral, os; assert os.path.realpath(mistral.__file__).startswith('/repo/'), mistral.__file__"
mkdir -p evidence replays
echo setup ok
