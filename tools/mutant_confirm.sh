#!/bin/bash
# usage: tools/mutant_confirm.sh <Cxx> <N> <pytest paths...>
# Confirms a sub-agent's mutant in a scratch worktree: demo passes on the pristine
# tree, fails with the patch; the listed existing tests pass with the patch.
id=$1; n=$2; shift 2
src=/tmp/mut/$id/out
wt=/tmp/mconf/$id-m$n
mkdir -p /tmp/mconf
git -C /repo worktree remove --force $wt >/dev/null 2>&1
git -C /repo worktree add --detach $wt HEAD -q || exit 2
cd $wt
demo=$src/m${n}_demo.py
run() { PYTHONPATH=$wt timeout 3000 /venv/bin/python -m pytest -q -p no:cacheprovider --timeout=900 "$@" 2>&1 | tail -4 | tr '\n' ' '; }
if [ -f $demo ]; then
  cp $demo $wt/mistral/tests/unit/verif_demo_test.py 2>/dev/null
  echo "DEMO pristine: $(run $demo)"
fi
git apply $src/m$n.diff || { echo "PATCH DOES NOT APPLY"; cd /; git -C /repo worktree remove --force $wt; exit 2; }
/venv/bin/python -m compileall -q mistral > /dev/null || echo "COMPILE FAILED"
if [ -f $demo ]; then echo "DEMO mutant:   $(run $demo)"; fi
rm -f $wt/mistral/tests/unit/verif_demo_test.py
if [ $# -gt 0 ]; then echo "TESTS mutant ($*): $(run "$@")"; fi
cd /
git -C /repo worktree remove --force $wt
