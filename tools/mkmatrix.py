#!/usr/bin/env python3
"""Regenerates the table of section 0.5 of DESIGN.md (seeded changes and the
checks that catch them) from seeded/CATCH.json and seeded/<id>/meta.json."""
import json
import os
import re

ROOT = os.path.dirname(os.path.dirname(os.path.abspath(__file__)))


def main():
    C = json.load(open(os.path.join(ROOT, 'seeded', 'CATCH.json')))
    rows = []
    caught = total = 0
    for k in sorted(C):
        d = os.path.join(ROOT, 'seeded', k)
        m = {}
        if os.path.isdir(d):
            m = json.load(open(os.path.join(d, 'meta.json')))
        elif k != 'C07-m3':
            continue
        total += 1
        c = C[k]
        if c['caught_by']:
            caught += 1
        files = ', '.join(os.path.basename(f) for f in (m.get('files') or []))
        rows.append('| %s | %s | %s | %s | %s |' % (
            k, files, ', '.join(c['caught_by']) or '-',
            ', '.join(c['missed_by']) or '-', c.get('note', '')))
    table = ('| change | file(s) | caught by | missed by | note |\n'
             '|---|---|---|---|---|\n' + '\n'.join(rows) + '\n')
    p = os.path.join(ROOT, 'DESIGN.md')
    s = open(p).read()
    pat = re.compile(r'\| change \| file\(s\) \| caught by \| missed by \| '
                     r'note \|\n\|---\|---\|---\|---\|---\|\n(?:\|.*\n)+')
    assert pat.search(s), 'table not found'
    s = pat.sub(lambda _: table, s, count=1)
    s = re.sub(r'\*\*\d+ are caught\*\*', '**%d are caught**' % caught, s)
    open(p, 'w').write(s)
    print('rows', total, 'caught', caught)


if __name__ == '__main__':
    main()
