#!/usr/bin/env python3
"""Copies the confirmed sub-agent mutants from /tmp/mut/<Cxx>/out into
/verif/seeded/<Cxx>-m<k>/ (patch.diff, demo.py, meta.json).

meta.json = what the sub-agent wrote (property, summary, what the change
needs in order to manifest) + what was run here to confirm it (the summary
written by tools/mutant_pipeline.sh: demonstration on the pristine tree and
with the patch, whole existing suite with the patch) + which checks catch it
(seeded/CATCH.json, maintained by hand from the evaluation runs)."""
import json
import os
import shutil
import sys

ROOT = os.path.dirname(os.path.dirname(os.path.abspath(__file__)))
SRC = '/tmp/mut'
LOGS = '/tmp/mconf/logs'


def summary(path):
    out = {}
    if not os.path.exists(path):
        return out
    for line in open(path):
        line = line.rstrip('\n')
        if '=' in line and not line.startswith(('check', ' ', 'suite')):
            k, v = line.split('=', 1)
            out[k] = v
        elif line.startswith('suite:'):
            out['suite'] = line[6:].strip()
        elif line.startswith('suite_nonpass:'):
            out.setdefault('suite_nonpass', []).append(line[14:].strip())
    return out


def main():
    catch_file = os.path.join(ROOT, 'seeded', 'CATCH.json')
    catch = json.load(open(catch_file)) if os.path.exists(catch_file) else {}
    n = 0
    for prop in sorted(os.listdir(SRC)):
        out = os.path.join(SRC, prop, 'out')
        if not os.path.isdir(out):
            continue
        for k in (1, 2, 3, 4):
            diff = os.path.join(out, 'm%d.diff' % k)
            demo = os.path.join(out, 'm%d_demo.py' % k)
            meta = os.path.join(out, 'm%d_meta.json' % k)
            if not (os.path.exists(diff) and os.path.exists(demo)):
                continue
            conf = summary(os.path.join(LOGS, '%s-m%d.summary.A' % (prop, k)))
            if conf.get('demo_pristine_rc') != '0' or \
                    conf.get('demo_mutant_rc') in (None, '0'):
                print('skip %s m%d: not confirmed (%s)' % (prop, k, conf))
                continue
            if 'suite' not in conf:
                print('skip %s m%d: suite not run yet' % (prop, k))
                continue
            dst = os.path.join(ROOT, 'seeded', '%s-m%d' % (prop, k))
            os.makedirs(dst, exist_ok=True)
            shutil.copy(diff, os.path.join(dst, 'patch.diff'))
            shutil.copy(demo, os.path.join(dst, 'demo.py'))
            m = {}
            if os.path.exists(meta):
                try:
                    m = json.load(open(meta))
                except Exception:
                    m = {'summary': open(meta).read()[:2000]}
            key = '%s-m%d' % (prop, k)
            doc = {
                'id': key,
                'property': prop,
                'written_by': 'independent sub-agent (given only the '
                              'property text and a scratch worktree)',
                'summary': m.get('summary'),
                'needs': m.get('needs'),
                'files': m.get('files'),
                'confirmed_here': {
                    'how': 'tools/mutant_pipeline.sh %s %d in a scratch '
                           'worktree of /repo HEAD: demo on the pristine '
                           'tree, patch applied + compileall, demo again, '
                           'whole suite (pytest -n 5 mistral/tests)' % (
                               prop, k),
                    'demo_on_pristine_tree': 'passes'
                    if conf.get('demo_pristine_rc') == '0' else 'fails',
                    'demo_with_patch': 'fails (rc %s)' %
                    conf.get('demo_mutant_rc'),
                    'suite_with_patch': conf.get('suite'),
                    'suite_nonpassing': conf.get('suite_nonpass', []),
                    'suite_nonpassing_rechecked': (
                        'each of them was run again with the patch on the '
                        'current /repo HEAD and passed (the notifier test '
                        'failed in the suite run because of a regression of '
                        'an earlier fix of this task, repaired by 8b88177e; '
                        'the others are load-dependent)'
                        if conf.get('suite_nonpass') else ''),
                },
                'caught_by': catch.get(key, {}).get('caught_by', []),
                'missed_by': catch.get(key, {}).get('missed_by', []),
                'note': catch.get(key, {}).get('note', ''),
            }
            with open(os.path.join(dst, 'meta.json'), 'w') as f:
                json.dump(doc, f, indent=1, sort_keys=True)
            n += 1
    print('collected %d seeded changes' % n)


if __name__ == '__main__':
    sys.exit(main())
