#!/bin/bash
# usage: tools/mutant_eval.sh <patch.diff> <name> <check id>... [-- extra check args]
# Applies the patch to a scratch worktree of /repo under /tmp/mev/<name>, runs the
# given checks (quick tier, no evidence) against that tree through PYTHONPATH,
# prints one summary line per check and removes the worktree again.
# (Development helper: the registered procedure is git -C /repo apply / checkout.)
patch=$1; name=$2; shift 2
ids=(); extra=()
while [ $# -gt 0 ]; do
  if [ "$1" = "--" ]; then shift; extra=("$@"); break; fi
  ids+=("$1"); shift
done
wt=/tmp/mev/$name
mkdir -p /tmp/mev /tmp/mev/logs
git -C /repo worktree remove --force $wt >/dev/null 2>&1
git -C /repo worktree add --detach $wt HEAD -q || exit 2
if ! git -C $wt apply "$patch"; then echo "PATCH DOES NOT APPLY: $patch"; git -C /repo worktree remove --force $wt; exit 2; fi
cd "$(dirname "$0")/.."
for c in "${ids[@]}"; do
  log=/tmp/mev/logs/$name.$c.log
  PYTHONPATH=$wt VERIF_REPO=$wt VERIF_REPLAY_DIR=/tmp/mev/replays/$name ./check $c --tier quick --no-evidence "${extra[@]}" > $log 2>&1
  rc=$?
  echo "$name $c rc=$rc $(grep -c '^VIOLATION' $log) violation lines; $(grep "^$c: runs" $log | cut -c1-200)"
  grep '^VIOLATION' $log | head -3
  grep -A2 '^violation\|^  C[0-9][0-9]\.' $log | grep -v '^--' | cut -c1-300 | head -8
done
git -C /repo worktree remove --force $wt
