"""Developer tool: replay a case through its check module and print the
committed change trace."""
import importlib, json, sys
sys.path.insert(0, '/verif')
from mistralsim import world
world.boot()
d = json.load(open(sys.argv[1]))
mod = importlib.import_module('checks.%s' % d['property'].lower())
res = mod.execute(d)
lab = res.labels
print(res.status, res.reason, res.quiescent_reason)
flt = sys.argv[2] if len(sys.argv) > 2 else ''
for e in res.recorder.events:
    vals = {k: v for k, v in e.vals.items() if k in ('state', 'accepted', 'processed', 'name', 'state_info')}
    line = '%s %s %s %s %s %s -> %s %s' % (e.step, e.task[:40], e.op, e.table[:6], lab.any(e.id), e.old.get('state'), vals, 'C' if e.committed else 'R')
    if not flt or flt in line:
        print(line[:260])
for x in res.all_exceptions:
    print('EXC', x[0], x[1], repr(x[2])[:300])
for v in mod.evaluate(d, res):
    print('VIOL', v[0], v[1][:300])
