"""Developer tool: engine vs reference on generated programs."""
import json, random, sys, time
sys.path.insert(0, '/verif')
from mistralsim import world, gen, ref, runner, observe

def make_case(seed, feats_allowed, max_tasks=5, p=0.5):
    rng = random.Random(seed)
    feats = gen.pick_features(rng, feats_allowed, p)
    prog = gen.gen_program(rng, feats, max_tasks=max_tasks)
    case = runner.default_case()
    case['seed'] = seed
    case['prog'] = prog
    case['feats'] = sorted(feats)
    case['defs'] = gen.render_program(prog)
    main = prog['workflows'][0]
    params = {}
    if main.get('env'):
        params['env'] = main['env']
    case['starts'] = [{'wf': main['name'], 'input': {'x': rng.choice([1, 2])}, 'params': params}]
    case['outcome_seed'] = seed
    case['p_err'] = rng.choice([0.0, 0.2, 0.4])
    case['config']['scheduler_type'] = rng.choice(['legacy', 'default'])
    case['config']['integrity_delay'] = -1
    return case

def check(case, verbose=False):
    res = runner.run_case(case)
    if res.status != 'ok':
        return 'status', [res.status + ': ' + res.reason[:2000]]
    prog = case['prog']
    main = prog['workflows'][0]
    fn = gen.default_outcome_fn(case['outcome_seed'], case['p_err'])
    rr, rrec = ref.run_reference(prog, case['starts'][0]['input'], main.get('env'), fn)
    diffs = ref.compare(rr, rrec, res.canon, 'data' if rr.exact else 'state')
    extra = []
    for kind, where, e, tb in res.foreign:
        extra.append('foreign %s %s: %s: %s' % (kind, where, type(e).__name__, str(e)[:200]))
    return ('exact' if rr.exact and not rr.racy_tasks else 'racy'), diffs + extra

if __name__ == '__main__':
    world.boot()
    feats = sys.argv[1].split(',') if len(sys.argv) > 1 and sys.argv[1] else []
    lo, hi = int(sys.argv[2]), int(sys.argv[3])
    bad = 0; kinds = {}
    t0 = time.time()
    for seed in range(lo, hi):
        case = make_case(seed, feats)
        k, diffs = check(case)
        kinds[k] = kinds.get(k, 0) + 1
        if diffs:
            bad += 1
            print('=== seed', seed, case['feats'], k)
            for d in diffs[:8]: print('   ', d)
            if bad <= int(sys.argv[4]) if len(sys.argv) > 4 else 3:
                print(case['defs']['workflows'][0])
    print('done', hi-lo, 'bad', bad, kinds, '%.1fs' % (time.time()-t0))
