"""Regenerates MANIFEST.json from the list of built checks."""
import json, os, sys
ROOT = os.path.dirname(os.path.dirname(os.path.abspath(__file__)))

CLAIMED = json.load(open(os.path.join(ROOT, 'tools', 'claimed.json')))
NA = {
 'C14': 'pure function of the submitted definition text (validation total, round trip): no schedule, clock, fault or second party for a simulation to control; the one operational clause (same behaviour after cache eviction / engine restart) is exercised as the eviction fault of C02',
 'C16': 'finite cross product of controller method x policy x resource x requested state, evaluated request by request; nothing depends on interleaving, time or faults, so deterministic simulation adds nothing over plain enumeration',
 'C19': 'pure function of (URL, configuration, resolver answer); a fake resolver would only be another input, not a schedule or fault',
}
props = [json.loads(l) for l in open(os.path.join(ROOT, 'properties.jsonl'))]
checks = []
na = []
for p in props:
    pid = p['id']
    if pid in CLAIMED:
        c = CLAIMED[pid]
        checks.append({
            'property_id': pid,
            'quick_cmd': './check %s --tier quick' % pid,
            'thorough_cmd': './check %s --tier thorough' % pid,
            'evidence_file': 'evidence/%s.json' % pid,
            'replay_cmd_template': './check %s --replay {path}' % pid,
            'engine': 'mistralsim',
            'level_claimed': {'category': 'exploration', 'text': c['text'],
                              'design_ref': c.get('design_ref', 'DESIGN.md section 4')},
            'level_note': c['note'],
            'technique': c.get('technique', 'deterministic simulation with fault injection: seeded baton-passing scheduler over the real engine/scheduler/executor code, virtual clock, simulated RPC; online invariants + history oracles; seeded search with shrinking and replay'),
        })
    elif pid in NA:
        na.append({'property_id': pid, 'reason': NA[pid]})
    else:
        na.append({'property_id': pid, 'reason': 'not claimed yet: the simulation check for this property is still being built (see DESIGN.md section 4 for the planned oracle)'})
m = {
 'version': 1,
 'setup_cmd': './setup.sh',
 'hooks': {'guard': 'MISTRAL_VERIF', 'enable': 'no source hooks: every seam is a module attribute replaced by the harness at run time (mistralsim/world.py boot())', 'baseline_off_cmd': 'cd /repo && /venv/bin/python -m pytest -ra -q -p no:cacheprovider --timeout=900 --continue-on-collection-errors', 'source_commits': [], 'add_only': True},
 'engines': [{'name': 'mistralsim', 'path': 'mistralsim/', 'serves_properties': sorted(CLAIMED), 'kind_free_text': 'deterministic discrete-event simulator: real threads released one at a time by a seeded scheduler (baton passing), virtual clock, simulated message bus with duplication/delay/reorder/loss, node crash/restart/stall, cache eviction; real Mistral engine, scheduler, executor, db layer on in-memory SQLite'}],
 'checks': checks,
 'not_applicable': na,
 'notes': 'Genuine defects found are listed in KNOWN_FINDINGS.json (open ones are printed as KNOWN-FINDING, fixed ones are guarded by regressions/*.json). See DESIGN.md.',
}
json.dump(m, open(os.path.join(ROOT, 'MANIFEST.json'), 'w'), indent=1)
print('claimed', sorted(CLAIMED), 'na', [x['property_id'] for x in na])
