#!/bin/bash
# usage: tools/mutant_pipeline.sh <Cxx> <n> [check ids...]
# Development helper for seeded changes written by independent sub-agents
# (/tmp/mut/<Cxx>/out/m<n>.diff + m<n>_demo.py):
#   1. scratch worktree of /repo HEAD under /tmp/mconf
#   2. demonstration on the pristine tree (must pass)
#   3. apply the patch, compile, demonstration again (must fail)
#   4. whole existing test suite with the patch (must pass apart from the
#      items that do not pass on the pristine tree either)
#   5. the given checks (default: the property's own) in the quick tier
#      against the patched worktree (PYTHONPATH), no evidence written
# Everything is written to /tmp/mconf/logs/<Cxx>-m<n>.*; the worktree is removed.
id=$1; n=$2; shift 2
checks=("$@"); [ ${#checks[@]} -eq 0 ] && checks=($id)
src=/tmp/mut/$id/out
wt=/tmp/mconf/$id-m$n${WT_SUFFIX}
logs=/tmp/mconf/logs; mkdir -p $logs
sum=$logs/$id-m$n.summary${WT_SUFFIX}; : > $sum
git -C /repo worktree remove --force $wt >/dev/null 2>&1
git -C /repo worktree add --detach $wt HEAD -q || exit 2
demo=$src/m${n}_demo.py
rundemo() {
  case "$demo" in
    *.py) (cd $wt && PYTHONPATH=$wt timeout 1500 /venv/bin/python -m pytest -q -p no:cacheprovider --timeout=600 -n 1 $demo > $1 2>&1; echo $?) ;;
  esac
}
if [ "${SKIP_DEMO:-0}" != "1" ]; then rc0=$(rundemo $logs/$id-m$n.demo_pristine.log); echo "demo_pristine_rc=$rc0" >> $sum; fi
if ! git -C $wt apply $src/m$n.diff; then echo "patch_applies=no" >> $sum; git -C /repo worktree remove --force $wt; cat $sum; exit 2; fi
echo "patch_applies=yes" >> $sum
(cd $wt && /venv/bin/python -m compileall -q mistral > /dev/null) && echo "compiles=yes" >> $sum || echo "compiles=no" >> $sum
if [ "${SKIP_DEMO:-0}" != "1" ]; then rc1=$(rundemo $logs/$id-m$n.demo_mutant.log); echo "demo_mutant_rc=$rc1" >> $sum; fi
if [ "${SKIP_SUITE:-0}" != "1" ]; then
  (cd $wt && PYTHONPATH=$wt timeout 3000 /venv/bin/python -m pytest -q -p no:cacheprovider --timeout=900 -n ${SUITE_N:-5} mistral/tests > $logs/$id-m$n.suite.log 2>&1)
  echo "suite: $(tail -1 $logs/$id-m$n.suite.log)" >> $sum
  grep -E "^(FAILED|ERROR) " $logs/$id-m$n.suite.log | grep -v "test_func\b" | sed 's/^/suite_nonpass: /' >> $sum
fi
cd "$(dirname "$0")/.."
[ "${SKIP_CHECKS:-0}" = "1" ] && checks=()
for c in "${checks[@]}"; do
  log=$logs/$id-m$n.check_$c.log
  PYTHONPATH=$wt VERIF_REPO=$wt VERIF_REPLAY_DIR=/tmp/mconf/replays/$id-m$n ./check $c --tier quick --no-evidence ${CHECK_ARGS} > $log 2>&1
  rc=$?
  echo "check $c rc=$rc violations=$(grep -c '^VIOLATION' $log) :: $(grep "^$c: runs" $log | cut -c1-160)" >> $sum
  grep '^violation' $log | cut -c1-260 | head -3 | sed 's/^/   /' >> $sum
done
git -C /repo worktree remove --force $wt
cat $sum
