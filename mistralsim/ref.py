"""RefWF: small sequential reference interpreter of the generator's AST.

Written from the workflow language documentation (doc/source/user/
wf_lang_v2.rst); see DESIGN.md Appendix A.  No threads, no database, no
scheduler.  Produces a record shaped like observe.canonical().

A value the language does not determine for the given program (depends on the
order of concurrent events) is represented by RACY and matches anything.
"""

import copy

RACY = '\x00RACY'


class EvalError(Exception):
    pass


class Occ(object):
    def __init__(self, task, n, label):
        self.task = task
        self.n = n
        self.label = label
        self.env = {}          # var -> (value, publisher occ id)
        self.anc = set()       # ids of causal ancestor occurrences
        self.danc = set()      # ids of data ancestors (routed upstream)
        self.id = None
        self.state = None
        self.result = None
        self.published = {}
        self.error_handled = None
        self.next = []
        self.structural = False
        self.state_info_class = 'none'
        self.n_execs = 0
        self.accepted = []
        self.routed = {}       # join name -> event
        self.attempts = 0
        self.is_join = False
        self.has_next = False
        self.ckey = task['name']
        self.item_attempts = {}


def is_racy(v):
    if v == RACY:
        return True
    if isinstance(v, list):
        return any(is_racy(x) for x in v)
    if isinstance(v, dict):
        return any(is_racy(x) for x in v.values())
    return False


class RefRun(object):
    """One workflow execution (children are nested RefRun objects)."""

    def __init__(self, prog, wf, inp, env, outcome_fn, path, rec,
                 tag_path=None, root=None, opts=None):
        self.prog = prog
        self.wf = wf
        self.input = inp
        self.env_vars = env
        self.outcome_fn = outcome_fn
        self.path = path              # label of this execution
        self.tag_path = tag_path if tag_path is not None else wf['name']
        self.rec = rec                # shared record dict
        self.root = root or self
        self.opts = opts or {}
        self.tasks = dict((t['name'], t) for t in wf['tasks'])
        self.order = [t['name'] for t in wf['tasks']]
        self.occs = []
        self.by_name = {}
        self.ready = []
        self.joins = {}               # name -> Occ (single occurrence)
        self.state = 'RUNNING'
        self.state_info_class = 'none'
        self.output = None
        self.globals = {}
        self.racy_tasks = False       # task set not determined
        self.exact = True
        self.notes = []
        self.attempt_counter = self.root.__dict__.setdefault(
            '_attempts', {})
        self.terminal_event = None
        self.children = []            # (occ, idx, k, RefRun)

    # ------------------------------------------------------------ structure
    def clause(self, tname, key):
        t = self.tasks[tname]
        res = t.get(key) or []
        if not res:
            td = self.wf.get('task_defaults') or {}
            res = [e for e in (td.get(key) or []) if e['to'] != tname]
        return res

    def outbound_names(self, tname):
        s = set()
        for key in ('on_error', 'on_success', 'on_complete', 'on_skip'):
            for e in self.clause(tname, key):
                s.add(e['to'])
        return s

    def inbound_specs(self, tname):
        return [n for n in self.order if tname in self.outbound_names(n)]

    def policy(self, t, key):
        if t.get(key) is not None:
            return t[key]
        td = self.wf.get('task_defaults') or {}
        return td.get(key)

    # ----------------------------------------------------------- evaluation
    def lookup(self, name, occ, extra=None):
        if extra and name in extra:
            return extra[name]
        if occ is not None and name in occ.env:
            return occ.env[name][0]
        if name in self.globals:
            return self.globals[name]
        if name in self.input:
            return self.input[name]
        raise EvalError('no var %s' % name)

    def ev(self, e, occ, extra=None, res=None):
        k = e[0]
        if k == 'const':
            return copy.deepcopy(e[1])
        if k == 'var':
            return self.lookup(e[1], occ, extra)
        if k == 'res':
            return res
        if k == 'env':
            env = self.root.env_vars or {}
            if e[1] not in env:
                raise EvalError('no env %s' % e[1])
            return env[e[1]]
        if k in ('eq', 'lt'):
            a = self.ev(e[1], occ, extra, res)
            b = self.ev(e[2], occ, extra, res)
            if is_racy(a) or is_racy(b):
                return RACY
            if k == 'eq':
                return a == b
            try:
                return a < b
            except TypeError:
                raise EvalError('lt types')
        if k == 'inc':
            a = self.ev(e[1], occ, extra, res)
            if is_racy(a):
                return RACY
            if isinstance(a, bool) or not isinstance(a, (int, float)):
                raise EvalError('inc on %r' % (a,))
            return a + 1
        if k == 'bad':
            raise EvalError('bad')
        if k == 'list':
            return [self.ev(x, occ, extra, res) for x in e[1]]
        if k == 'dict':
            return dict((kk, self.ev(x, occ, extra, res))
                        for kk, x in e[1].items())
        raise ValueError(e)

    # ------------------------------------------------------------------ run
    def new_occ(self, tname):
        lst = self.by_name.setdefault(tname, [])
        o = Occ(self.tasks[tname], len(lst),
                '%s/%s#%d' % (self.path, tname, len(lst)))
        o.id = len(self.occs)
        lst.append(o)
        self.occs.append(o)
        o.is_join = self.tasks[tname].get('join') is not None
        return o

    def run(self):
        wf = self.wf
        # vars
        try:
            for k, e in sorted((wf.get('vars') or {}).items()):
                self.globals[k] = self.ev(e, None)
        except EvalError:
            # start_workflow itself fails: no execution is created
            self.state = 'NOT_CREATED'
            return self
        if wf.get('type', 'direct') == 'reverse':
            self.run_reverse()
        else:
            for name in self.order:
                if not self.inbound_specs(name):
                    o = self.new_occ(name)
                    self.ready.append(o)
            self.loop()
        self.finish()
        return self

    def terminal(self):
        return self.state in ('SUCCESS', 'ERROR', 'CANCELLED')

    def loop(self):
        guard = 0
        while True:
            guard += 1
            if guard > 500:
                self.exact = False
                self.notes.append('loop bound')
                return
            if self.ready:
                o = self.ready.pop(0)
                self.exec_occ(o)
                continue
            if not self.settle_joins():
                break

    # -------------------------------------------------------------- joins
    def settle_joins(self):
        progressed = False
        if self.terminal():
            for j in self.joins.values():
                if j.state is None:
                    j.state = 'WAITING'
            return False
        for name in self.order:
            if self.terminal():
                break
            j = self.joins.get(name)
            if j is None or j.state not in (None, 'WAITING'):
                continue
            st = self.join_state(j)
            if st == 'RUNNING':
                self.start_join(j)
                progressed = True
            elif st == 'ERROR':
                j.state_info_class = 'join-failed'
                self.join_env(j)
                # A join fails as soon as one inbound task is known not to
                # route to it, possibly while other inbound branches are
                # still running: only the inbound tasks that induce the
                # failure are causal ancestors, and the context it sees is
                # timing dependent.
                j.anc = set()
                culprits = []
                for p_ in self.inbound_specs(j.task['name']):
                    execs = self.by_name.get(p_) or []
                    if not execs:
                        culprits.append(None)
                    for po in execs[-1:]:
                        if po.state in ('SUCCESS', 'ERROR', 'CANCELLED',
                                        'SKIPPED') and j.task['name'] not in \
                                [n for n, _ in po.next]:
                            culprits.append(po)
                if len(culprits) == 1 and culprits[0] is not None:
                    # any single culprit is enough to fail the join; only
                    # with exactly one the moment of failure is determined
                    j.anc = culprits[0].anc | {culprits[0].id}
                j.env = dict((k, (RACY, -1)) for k in j.env)
                # (impl) a join failed by its inbound tasks completes like
                # any task: publish-on-error is evaluated, task().result is
                # the empty list because nothing was executed
                try:
                    pub = self.eval_publish(j, 'ERROR', [])
                    j.published = pub['branch']
                    for k, v in pub['global'].items():
                        self.globals[k] = v
                except EvalError:
                    self.structural_error(j)
                    progressed = True
                    continue
                self.complete_task(j, 'ERROR', [], from_join_fail=True)
                progressed = True
        return progressed

    def _possible_route(self, name, seen=None):
        # is it still possible that task `name` gets executed?
        seen = seen or set()
        if name in seen:
            return False
        seen.add(name)
        ins = self.inbound_specs(name)
        if not ins:
            return True
        for p in ins:
            execs = self.by_name.get(p)
            if not execs:
                if self._possible_route(p, seen):
                    return True
            else:
                for po in execs:
                    if po.state not in ('SUCCESS', 'ERROR', 'CANCELLED',
                                        'SKIPPED'):
                        return True
                    if name in [n for n, _ in po.next]:
                        return True
        return False

    def join_state(self, j):
        t = j.task
        ins = self.inbound_specs(t['name'])
        if not ins:
            return 'RUNNING'
        induced = []
        for p in ins:
            execs = self.by_name.get(p)
            if not execs:
                induced.append('WAITING' if self._possible_route(p)
                               else 'ERROR')
                continue
            if len(execs) > 1:
                self.exact = False
                self.notes.append('join fed by repeated task')
            po = execs[-1]
            if po.state not in ('SUCCESS', 'ERROR', 'CANCELLED', 'SKIPPED'):
                induced.append('WAITING')
            elif t['name'] in [n for n, _ in po.next]:
                induced.append('RUNNING')
            else:
                induced.append('ERROR')
        total = len(induced)
        runs = induced.count('RUNNING')
        errs = induced.count('ERROR')
        jn = t['join']
        if jn == 'all':
            if runs == total:
                return 'RUNNING'
            if errs > 0:
                return 'ERROR'
            return 'WAITING'
        card = 1 if jn == 'one' else int(jn)
        if runs >= card:
            if runs < total or total > card:
                # more inbound branches than needed: which of them made it
                # into the context, and whether a late one re-triggers the
                # join (see KNOWN_FINDINGS C04), depends on timing
                j.partial_open = True
            return 'RUNNING'
        if errs > total - card:
            return 'ERROR'
        return 'WAITING'

    def start_join(self, j):
        self.join_env(j)
        if getattr(j, 'partial_open', False):
            self.exact = False
            self.racy_tasks = True
            self.notes.append('open partial join %s' % j.label)
        self.exec_occ(j)

    def join_env(self, j):
        t = j.task
        name = t['name']
        srcs = []
        for p in self.inbound_specs(name):
            for po in (self.by_name.get(p) or [])[-1:]:
                if po.state in ('SUCCESS', 'ERROR', 'CANCELLED', 'SKIPPED') \
                        and name in [n for n, _ in po.next]:
                    srcs.append(po)
        j.env = self.merge_envs([self.out_env(s) for s in srcs],
                                [s for s in srcs])
        for s in srcs:
            j.anc |= s.anc | {s.id}
            j.danc |= s.danc | {s.id}
        if t['join'] != 'all':
            total = len(self.inbound_specs(name))
            if len(srcs) < total or getattr(j, 'partial_open', False):
                pass
            # with a partial join the set of branches that made it into the
            # context depends on timing unless all of them are identical
            j.env = self.racy_partial(j, srcs)

    def racy_partial(self, j, srcs):
        # Variables on which all *potential* inbound branches agree keep
        # their value, everything else is timing dependent.
        name = j.task['name']
        all_srcs = []
        for p in self.inbound_specs(name):
            all_srcs.extend(self.by_name.get(p) or [])
        envs = [self.out_env(s) for s in all_srcs
                if s.state in ('SUCCESS', 'ERROR', 'CANCELLED', 'SKIPPED')]
        pending = any(s.state not in ('SUCCESS', 'ERROR', 'CANCELLED',
                                      'SKIPPED') for s in all_srcs)
        keys = set()
        for e in envs:
            keys |= set(e)
        res = {}
        for k in keys:
            vals = [e.get(k) for e in envs]
            if pending or any(v is None for v in vals) or \
                    any(v != vals[0] for v in vals):
                res[k] = (RACY, -1)
            else:
                res[k] = vals[0]
        return res

    # ------------------------------------------------------------ data flow
    def out_env(self, o):
        env = dict(o.env)
        for k, v in (o.published or {}).items():
            env[k] = (v, o.id)
        return env

    def merge_envs(self, envs, srcs):
        res = {}
        keys = set()
        for e in envs:
            keys |= set(e)
        for k in keys:
            cands = {}
            for e in envs:
                if k in e:
                    v, pub = e[k]
                    cands[pub] = v
            if len(cands) == 1:
                pub, v = list(cands.items())[0]
                res[k] = (v, pub)
                continue
            # maximal publishers
            pubs = list(cands)
            maximal = [p for p in pubs if p != -1 and not any(
                q != p and q != -1 and p in self.occs[q].danc for q in pubs)]
            if -1 in pubs:
                res[k] = (RACY, -1)
            elif len(maximal) == 1:
                res[k] = (cands[maximal[0]], maximal[0])
            else:
                vals = [cands[p] for p in maximal]
                if all(v == vals[0] for v in vals) and not \
                        isinstance(vals[0], dict):
                    res[k] = (vals[0], maximal[0])
                else:
                    res[k] = (RACY, -1)
        return res

    # ----------------------------------------------------------- execution
    def tag_of(self, t):
        return '%s.%s' % (self.tag_path, t['name'])

    def next_attempt(self, tag, item):
        key = (tag, item)
        n = self.attempt_counter.get(key, 0)
        self.attempt_counter[key] = n + 1
        return n

    def run_body_once(self, o, items):
        """Returns (state, result, n_execs_added, accepted_indexes) or raises
        EvalError for a structural failure before/while scheduling."""
        t = o.task
        body = t.get('body') or {'kind': 'sync'}
        kind = body['kind']
        wi = t.get('with_items')
        results = []
        states_ = []
        nex = 0
        for idx in items:
            extra = {wi['var']: idx} if wi else None
            if kind in ('sync', 'async', 'wf'):
                for k, e in sorted((body.get('input') or {}).items()):
                    self.ev(e, o, extra)
            if kind in ('sync', 'async'):
                tag = self.tag_of(t)
                n = o.item_attempts.get(idx, 0)
                o.item_attempts[idx] = n + 1
                shift = ((self.opts or {}).get('shift') or {}).get(
                    '%s/%s' % (self.wf['name'], t['name']), 0)
                oc = self.outcome_fn(tag, idx, n + shift)
                nex += 1
                if oc[0] == 'ok':
                    states_.append('SUCCESS')
                elif oc[0] == 'cancel':
                    states_.append('CANCELLED')
                else:
                    states_.append('ERROR')
                results.append(copy.deepcopy(oc[1]))
            elif kind == 'noop':
                nex += 1
                states_.append('SUCCESS')
                results.append(None)
            elif kind == 'echo':
                nex += 1
                states_.append('SUCCESS')
                results.append(self.ev(body['output'], o, extra))
            elif kind == 'fail':
                nex += 1
                states_.append('ERROR')
                results.append(RACY)   # message text is not specified
            elif kind == 'wf':
                nex += 1
                st, out = self.run_child(o, body, idx, extra)
                states_.append(st)
                results.append(out)
        return states_, results, nex

    def run_child(self, o, body, idx, extra):
        cname = body['wf']
        cwf = None
        for w in self.prog['workflows']:
            if w['name'] == cname or w.get('short') == cname:
                cwf = w
        k = o.sub_counts.get(idx, 0)
        o.sub_counts[idx] = k + 1
        cpath = '%s[%s.%d]' % (o.label, idx, k)
        tag_path = self.tag_of(o.task)
        if o.task.get('with_items'):
            tag_path = '%s[%s]' % (tag_path, idx)
        cin = {}
        for i in cwf.get('input') or []:
            if isinstance(i, dict):
                cin.update(copy.deepcopy(i))
        for kx, e in (body.get('input') or {}).items():
            cin[kx] = self.ev(e, o, extra)
        if cwf.get('path_input'):
            cin['p'] = tag_path
        child = RefRun(self.prog, cwf, cin, None, self.outcome_fn, cpath,
                       self.rec, tag_path=tag_path, root=self.root,
                       opts=self.opts)
        child.run()
        self.children.append((o, idx, k, child))
        if not child.exact:
            self.exact = False
        if child.racy_tasks:
            self.racy_tasks = True
        if child.state == 'SUCCESS':
            return 'SUCCESS', child.output
        if child.state == 'CANCELLED':
            return 'CANCELLED', RACY
        return 'ERROR', RACY

    def exec_occ(self, o):
        if self.terminal():
            # created before the workflow stopped: it still runs, but its
            # own outcome no longer moves the workflow (see C11)
            pass
        t = o.task
        o.sub_counts = {}
        wi = t.get('with_items')
        retry = self.policy(t, 'retry')
        attempt = 0
        first = True
        while True:
            try:
                if wi:
                    lst = self.ev(wi['list'], o)
                    if not isinstance(lst, list):
                        raise EvalError('with-items list')
                    items = list(range(len(lst)))
                    # re-runs by retry re-execute every item
                else:
                    items = [0]
                states_, results, nex = self.run_body_once(o, items)
            except EvalError:
                self.structural_error(o)
                return
            o.n_execs += nex
            o.attempts += 1
            if wi:
                if 'CANCELLED' in states_:
                    st = 'CANCELLED'
                elif 'ERROR' in states_:
                    st = 'ERROR'
                else:
                    st = 'SUCCESS'
                res = results
            else:
                st, res = states_[0], results[0]
            o.accepted = list(items)
            # fail-on
            fo = self.policy(t, 'fail_on')
            # task-level completion with policies
            cont = self.after_attempt(o, st, res, retry, attempt)
            if cont == 'structural':
                return
            if cont:
                attempt += 1
                continue
            break

    def after_attempt(self, o, st, res, retry, attempt):
        """Publishing + policies for one finished attempt. Returns True when
        the retry policy starts another attempt."""
        t = o.task
        o.result = res
        # publish happens on every completion (before policies)
        try:
            pub = self.eval_publish(o, st, res)
        except EvalError:
            # (impl) variables published by an earlier attempt stay
            self.structural_error(o, keep_exec=True)
            return 'structural'
        if pub['has_spec']:
            o.published = pub['branch']
        # (impl) without a publish clause for this state the variables
        # published by an earlier attempt stay
        for k, v in pub['global'].items():
            self.globals[k] = v
        fo = self.policy(t, 'fail_on')
        if fo is not None and st == 'SUCCESS':
            try:
                v = self.ev(fo, o, res=res) if isinstance(fo, list) else fo
            except EvalError:
                self.structural_error(o, keep_exec=True)
                return 'structural'
            if v is True or (v and not is_racy(v)):
                st = 'ERROR'
                o.state_info_class = 'policy'
        if retry and isinstance(retry.get('count'), list):
            try:
                retry = dict(retry, count=self.ev(retry['count'], o))
            except EvalError:
                self.structural_error(o, keep_exec=True)
                return 'structural'
        if retry and retry.get('count', 0) and st in ('SUCCESS', 'ERROR'):
            try:
                env2 = None
                cont_on = retry.get('continue_on')
                brk_on = retry.get('break_on')
                cv = self.ev_pub(cont_on, o, res) if cont_on is not None \
                    else None
                bv = self.ev_pub(brk_on, o, res) if brk_on is not None \
                    else None
            except EvalError:
                self.structural_error(o, keep_exec=True)
                return 'structural'
            if is_racy(cv) or is_racy(bv):
                self.exact = False
                self.racy_tasks = True
                self.notes.append('retry condition on unspecified value')
            remain = attempt < retry['count']
            stop = (st == 'SUCCESS' and cont_on is None) or \
                (cont_on is not None and not cv)
            brk = st == 'ERROR' and bool(bv)
            if remain and not brk and not stop:
                o.accepted = []
                return True
        skip = ((self.opts or {}).get('skip') or ())
        if st == 'ERROR' and '%s/%s' % (self.wf['name'], t['name']) in skip:
            # operator skipped the failed task
            st = 'SKIPPED'
            try:
                o.published = dict(
                    (k, self.ev(e, o, None, res))
                    for k, e in sorted((t.get('publish_on_skip') or {})
                                       .items())) or o.published
            except EvalError:
                self.structural_error(o, keep_exec=True)
                return 'structural'
        self.complete_task(o, st, res)
        return False

    def ev_pub(self, e, o, res):
        # policies see the task outbound context (in-context + published)
        extra = dict((k, v) for k, v in (o.published or {}).items())
        return self.ev(e, o, extra, res)

    def eval_publish(self, o, st, res):
        t = o.task
        branch, glob = {}, {}
        spec = None
        if st == 'SUCCESS':
            spec = t.get('publish')
            adv = (t.get('adv_publish') or {}).get('on_success')
        elif st == 'ERROR':
            spec = t.get('publish_on_error')
            adv = (t.get('adv_publish') or {}).get('on_error')
        else:
            adv = None
        adv_c = (t.get('adv_publish') or {}).get('on_complete')
        for src in (spec,):
            for k, e in sorted((src or {}).items()):
                branch[k] = self.ev(e, o, None, res)
        for a in (adv_c, adv):
            if a:
                for k, e in sorted((a.get('branch') or {}).items()):
                    branch[k] = self.ev(e, o, None, res)
                for k, e in sorted((a.get('global') or {}).items()):
                    glob[k] = self.ev(e, o, None, res)
        return {'branch': branch, 'global': glob,
                'has_spec': bool(spec) or bool(adv) or bool(adv_c)}

    def structural_error(self, o, keep_exec=False, keep_next=False):
        """Expression failure: task ERROR, workflow ERROR at once; not
        catchable by on-error."""
        o.state = 'ERROR'
        o.structural = True
        o.error_handled = False
        if not keep_next:
            o.next = []
            o.has_next = False
        o.state_info_class = 'expression-error'
        if not self.terminal():
            self.set_terminal('ERROR', 'expression-error', o)

    def set_terminal(self, state, cls, by=None):
        """The workflow stops.  Occurrences that are concurrent with the one
        that caused the stop make the remaining task set timing dependent;
        joins that are still waiting stay WAITING for good."""
        for x in self.occs:
            if by is not None and (x.id == by.id or x.id in by.anc):
                continue
            if x.is_join and x.state in (None, 'WAITING'):
                if self.join_state(x) != 'WAITING':
                    self.racy_tasks = True
                continue
            self.racy_tasks = True
        if self.ready:
            self.racy_tasks = True
        self.state = state
        self.state_info_class = cls

    def complete_task(self, o, st, res, from_join_fail=False):
        t = o.task
        o.state = st
        o.result = res
        name = t['name']
        cmds = []
        try:
            extra = dict((k, v) for k, v in (o.published or {}).items())
            if st == 'ERROR':
                for en in self.clause(name, 'on_error'):
                    if self.guard(en, o, extra, res):
                        cmds.append((en, 'on-error'))
            skip_empty = False
            if st == 'SKIPPED':
                for en in self.clause(name, 'on_skip'):
                    if self.guard(en, o, extra, res):
                        cmds.append((en, 'on-skip'))
                skip_empty = not cmds
            if st == 'SUCCESS' or skip_empty:
                for en in self.clause(name, 'on_success'):
                    if self.guard(en, o, extra, res):
                        cmds.append((en, 'on-success'))
            if st in ('SUCCESS', 'ERROR'):
                for en in self.clause(name, 'on_complete'):
                    if self.guard(en, o, extra, res):
                        cmds.append((en, 'on-complete'))
        except EvalError:
            self.structural_error(o, keep_exec=True)
            return
        except RacyGuard:
            self.exact = False
            self.racy_tasks = True
            self.notes.append('racy guard at %s' % o.label)
            cmds = []
        if self.terminal():
            # workflow already finished: no commands are computed
            o.next = []
            o.has_next = False
            o.error_handled = False if st == 'ERROR' else None
            return
        o.next = [(en['to'], ev) for en, ev in cmds
                  if en['to'] not in ('fail', 'succeed', 'noop', 'pause')]
        o.has_next = bool(o.next)
        if st == 'ERROR':
            o.error_handled = any(ev == 'on-error' for _, ev in cmds)
        # dispatch: noop removed; everything after the first state command is
        # dropped; a leading state command drops everything else
        # 'pause' only suspends: the commands after it are kept in a backlog
        # and processed on resume, so it does not change the outcome
        eff = [(en, ev) for en, ev in cmds
               if en['to'] not in ('noop', 'pause')]
        idx = None
        for i, (en, ev) in enumerate(eff):
            if en['to'] in ('fail', 'succeed'):
                idx = i
                break
        if idx is not None:
            eff = eff[:idx + 1]
        # the same target twice in one list: out of the exact grammar
        tos = [en['to'] for en, _ in eff]
        if len(set(tos)) != len(tos):
            self.exact = False
            self.notes.append('duplicate target in one completion')
        for en, ev in eff:
            to = en['to']
            if self.terminal():
                break
            if to == 'fail':
                self.set_terminal('ERROR', 'other', o)
            elif to == 'succeed':
                # output is evaluated before the state is set; a failing
                # output expression is a structural error of this task
                try:
                    self.forced_output = self.eval_output(
                        self.wf.get('output'))
                except EvalError:
                    self.structural_error(o, keep_exec=True, keep_next=True)
                    return
                self.succeed_cmd = True
                self.set_terminal('SUCCESS', 'none', o)
            elif to == 'pause':
                self.exact = False
            else:
                tt = self.tasks[to]
                if tt.get('join') is not None:
                    o.routed[to] = ev
                    if to not in self.joins:
                        j = self.new_occ(to)
                        j.state = 'WAITING'
                        self.joins[to] = j
                    elif self.joins[to].state not in (None, 'WAITING'):
                        # join already ran: a late route creates nothing new
                        # in the exact grammar (cycles through joins are
                        # excluded)
                        self.exact = False
                        self.notes.append('route to finished join')
                else:
                    n = self.new_occ(to)
                    n.env = self.out_env(o)
                    n.anc = o.anc | {o.id}
                    n.danc = o.danc | {o.id}
                    n.ckey = '%s(%s:%s)' % (to, o.ckey, ev)
                    self.ready.append(n)

    def guard(self, en, o, extra, res):
        g = en.get('guard')
        if g is None:
            return True
        v = self.ev(g, o, extra, res)
        if is_racy(v):
            raise RacyGuard()
        return bool(v)

    # ------------------------------------------------------------- reverse
    def run_reverse(self):
        target = self.opts.get('task_name') or self.wf.get('target')
        closure = []

        def visit(n):
            if n in closure:
                return
            for r in self.tasks[n].get('requires') or []:
                visit(r)
            closure.append(n)

        visit(target)
        done = {}
        failed = False
        for n in closure:
            t = self.tasks[n]
            reqs = t.get('requires') or []
            if any(done.get(r) != 'SUCCESS' for r in reqs):
                continue
            o = self.new_occ(n)
            envs, srcs = [], []
            for r in reqs:
                ro = self.by_name[r][0]
                envs.append(self.out_env(ro))
                srcs.append(ro)
                o.anc |= ro.anc | {ro.id}
                o.danc |= ro.danc | {ro.id}
            o.env = self.merge_envs(envs, srcs) if envs else {}
            self.exec_occ(o)
            done[n] = o.state
            if self.terminal():
                break
        self.reverse_target = target

    # -------------------------------------------------------------- finish
    def finish(self):
        if not self.terminal():
            states_ = [o.state for o in self.occs]
            if any(s in (None, 'WAITING', 'RUNNING') for s in states_):
                # should not happen in the exact grammar
                self.exact = False
                self.notes.append('unfinished tasks at the end')
            if any(s == 'CANCELLED' for s in states_):
                self.state = 'CANCELLED'
                self.state_info_class = 'task-cancel'
            elif all(o.error_handled for o in self.occs
                     if o.state == 'ERROR'):
                self.state = 'SUCCESS'
            else:
                self.state = 'ERROR'
                self.state_info_class = 'task-error'
        out = None
        if self.state == 'SUCCESS' and hasattr(self, 'forced_output'):
            out = self.forced_output
        elif self.state == 'SUCCESS':
            try:
                out = self.eval_output(self.wf.get('output'))
            except EvalError:
                self.state = 'ERROR'
                self.state_info_class = 'expression-error'
                out = None
        if self.state == 'ERROR':
            try:
                out = self.eval_output(self.wf.get('output_on_error'),
                                       on_error=True)
            except EvalError:
                out = {}
        if self.state == 'CANCELLED':
            out = {}
        self.output = out

    def final_env(self):
        if self.wf.get('type', 'direct') == 'reverse':
            ends = [o for o in self.occs
                    if o.task['name'] == getattr(self, 'reverse_target', None)
                    and o.state in ('SUCCESS', 'ERROR')]
        else:
            ends = [o for o in self.occs
                    if o.state in ('SUCCESS', 'ERROR', 'CANCELLED', 'SKIPPED')
                    and not o.has_next]
        return self.merge_envs([self.out_env(o) for o in ends], ends)

    def eval_output(self, spec, on_error=False):
        env = self.final_env()

        class _O(object):
            pass

        fake = _O()
        fake.env = env
        if spec:
            return dict((k, self.ev(e, fake)) for k, e in sorted(spec.items()))
        # (impl) without an output / output-on-error clause the final data
        # flow context itself is the output, in both cases
        return dict((k, v[0]) for k, v in env.items())

    def relabel(self):
        # occurrence numbers follow the causal key, not creation order
        for name, lst in self.by_name.items():
            srt = sorted(lst, key=lambda o: (len(o.ckey), o.ckey, o.id))
            for i, o in enumerate(srt):
                o.label = '%s/%s#%d' % (self.path, name, i)

    def emit_all(self):
        self.relabel()
        self.emit()
        for o, idx, k, child in self.children:
            child.path = '%s[%s.%d]' % (o.label, idx, k)
            child.emit_all()

    def emit(self):
        self.rec['wf'][self.path] = {
            'state': self.state,
            'state_info_class': self.state_info_class,
            'output': self.output,
            'is_root': self.root is self,
        }
        for o in self.occs:
            self.rec['tasks'][o.label] = {
                'state': o.state,
                'error_handled': (bool(o.error_handled)
                                  if o.state == 'ERROR' else None),
                'has_next': bool(o.has_next),
                'next': sorted(tuple(x) for x in o.next),
                'published': o.published or {},
                'result': o.result,
                'n_execs': o.n_execs,
                'structural': o.structural,
                'attempts': o.attempts,
                'with_items': bool(o.task.get('with_items')),
                'state_info_class': o.state_info_class,
            }


class RacyGuard(Exception):
    pass


def run_reference(prog, inp, env, outcome_fn, opts=None, root_label=None):
    rec = {'wf': {}, 'tasks': {}}
    main = prog['workflows'][0]
    full_in = {}
    for i in main.get('input') or []:
        if isinstance(i, dict):
            full_in.update(copy.deepcopy(i))
    full_in.update(inp or {})
    if main.get('path_input'):
        full_in.setdefault('p', main['name'])
    r = RefRun(prog, main, full_in, env, outcome_fn,
               root_label or ('%s~0' % main['name']), rec, opts=opts)
    r.run()
    if r.state != 'NOT_CREATED':
        r.emit_all()
    return r, rec


# ------------------------------------------------------------------ compare
def match(ref_v, eng_v):
    if ref_v == RACY:
        return True
    if isinstance(ref_v, dict) and isinstance(eng_v, dict):
        if set(ref_v) != set(eng_v):
            return False
        return all(match(ref_v[k], eng_v[k]) for k in ref_v)
    if isinstance(ref_v, list) and isinstance(eng_v, list):
        if len(ref_v) != len(eng_v):
            return False
        return all(match(a, b) for a, b in zip(ref_v, eng_v))
    return ref_v == eng_v


def compare(refrun, ref_rec, canon, level='data'):
    """Returns a list of difference strings (empty = agreement)."""
    diffs = []
    if refrun.state == 'NOT_CREATED':
        if canon['wf']:
            diffs.append('reference: start fails, engine created %s'
                         % sorted(canon['wf']))
        return diffs
    rw, ew = ref_rec['wf'], canon['wf']
    rt, et = ref_rec['tasks'], canon['tasks']
    root = refrun.path
    if refrun.racy_tasks:
        return []
    if root not in ew:
        return ['engine has no execution %s (has %s)' % (root, sorted(ew))]
    if rw[root]['state'] != ew[root]['state']:
        diffs.append('wf %s state ref=%s engine=%s' % (
            root, rw[root]['state'], ew[root]['state']))
    if refrun.racy_tasks:
        return []
    if level == 'state':
        return diffs
    if set(rw) != set(ew):
        diffs.append('wf executions ref=%s engine=%s' % (
            sorted(rw), sorted(ew)))
    for p in sorted(set(rw) & set(ew)):
        if rw[p]['state'] != ew[p]['state']:
            diffs.append('wf %s state ref=%s engine=%s' % (
                p, rw[p]['state'], ew[p]['state']))
    if set(rt) != set(et):
        diffs.append('task executions: only ref=%s only engine=%s' % (
            sorted(set(rt) - set(et)), sorted(set(et) - set(rt))))
    for lab in sorted(set(rt) & set(et)):
        r, e = rt[lab], et[lab]
        if r['state'] != e['state']:
            diffs.append('task %s state ref=%s engine=%s' % (
                lab, r['state'], e['state']))
            continue
        if r['structural']:
            continue
        if r['state'] not in ('SUCCESS', 'ERROR', 'CANCELLED', 'SKIPPED'):
            continue
        if r['state'] == 'ERROR' and r['error_handled'] != \
                e['error_handled']:
            diffs.append('task %s error_handled ref=%s engine=%s' % (
                lab, r['error_handled'], e['error_handled']))
        if r['next'] != [tuple(x) for x in e['next']]:
            diffs.append('task %s next ref=%s engine=%s' % (
                lab, r['next'], e['next']))
        if r['n_execs'] != e['n_execs']:
            diffs.append('task %s executions ref=%s engine=%s' % (
                lab, r['n_execs'], e['n_execs']))
        if level != 'data':
            continue
        if not match(r['published'], e.get('published') or {}):
            diffs.append('task %s published ref=%r engine=%r' % (
                lab, r['published'], e.get('published')))
        eres = e.get('result')
        if r['with_items']:
            ok = match(r['result'], eres)
        else:
            ok = (len(eres) == 1 and match(r['result'], eres[0])) or \
                (len(eres) == 0 and r['result'] in (None, RACY, []))
        if not ok:
            diffs.append('task %s result ref=%r engine=%r' % (
                lab, r['result'], eres))
    if level == 'data':
        for p in sorted(set(rw) & set(ew)):
            ro, eo = rw[p]['output'], ew[p].get('output')
            if rw[p]['state'] != ew[p]['state']:
                continue
            if ro is None:
                continue
            if not match(ro, eo or {}):
                diffs.append('wf %s output ref=%r engine=%r' % (p, ro, eo))
    return diffs
