"""Seeded workflow-program generator (own AST -> Mistral v2 YAML).

The AST is plain JSON-able dicts so that a failing program can be stored in a
replay file and shrunk structurally.

Expressions: ['const', v] ['var', name] ['res'] (result of the current task)
['env', key] ['eq', a, b] ['inc', a] ['bad'] ['list', [e..]] ['dict', {k: e}]
"""

import copy
import json
import random

import yaml

CMDS = ('fail', 'succeed', 'noop', 'pause')


# ------------------------------------------------------------------ rendering
def _lit_yaql(v):
    if isinstance(v, bool):
        return 'true' if v else 'false'
    if v is None:
        return 'null'
    if isinstance(v, (int, float)):
        return repr(v)
    if isinstance(v, str):
        return "'%s'" % v
    if isinstance(v, list):
        return '[%s]' % ', '.join(_lit_yaql(x) for x in v)
    if isinstance(v, dict):
        return 'dict(%s)' % ', '.join('%s => %s' % (k, _lit_yaql(x))
                                      for k, x in sorted(v.items()))
    raise ValueError(v)


def _lit_jinja(v):
    if isinstance(v, bool):
        return 'true' if v else 'false'
    if v is None:
        return 'none'
    if isinstance(v, (int, float)):
        return repr(v)
    if isinstance(v, str):
        return "'%s'" % v
    if isinstance(v, list):
        return '[%s]' % ', '.join(_lit_jinja(x) for x in v)
    if isinstance(v, dict):
        return '{%s }' % ', '.join("'%s': %s" % (k, _lit_jinja(x))
                                   for k, x in sorted(v.items()))
    raise ValueError(v)


def _yaql(e, task):
    k = e[0]
    if k == 'const':
        return _lit_yaql(e[1])
    if k == 'var':
        return '$.%s' % e[1]
    if k == 'res':
        return 'task(%s).result' % task
    if k == 'env':
        return 'env().%s' % e[1]
    if k == 'eq':
        return '(%s = %s)' % (_yaql(e[1], task), _yaql(e[2], task))
    if k == 'inc':
        return '(%s + 1)' % _yaql(e[1], task)
    if k == 'lt':
        return '(%s < %s)' % (_yaql(e[1], task), _yaql(e[2], task))
    if k == 'bad':
        return '(1 / 0)'
    if k == 'list':
        return '[%s]' % ', '.join(_yaql(x, task) for x in e[1])
    if k == 'dict':
        return 'dict(%s)' % ', '.join(
            '%s => %s' % (kk, _yaql(x, task)) for kk, x in sorted(e[1].items()))
    raise ValueError(e)


def _jinja(e, task):
    k = e[0]
    if k == 'const':
        return _lit_jinja(e[1])
    if k == 'var':
        return '_.%s' % e[1]
    if k == 'res':
        return "task('%s').result" % task
    if k == 'env':
        return 'env().%s' % e[1]
    if k == 'eq':
        return '(%s == %s)' % (_jinja(e[1], task), _jinja(e[2], task))
    if k == 'inc':
        return '(%s + 1)' % _jinja(e[1], task)
    if k == 'lt':
        return '(%s < %s)' % (_jinja(e[1], task), _jinja(e[2], task))
    if k == 'bad':
        return '(1 / 0)'
    if k == 'list':
        return '[%s]' % ', '.join(_jinja(x, task) for x in e[1])
    if k == 'dict':
        return '{%s }' % ', '.join(
            "'%s': %s" % (kk, _jinja(x, task)) for kk, x in sorted(e[1].items()))
    raise ValueError(e)


def render_expr(e, lang, task=None, force=False):
    """Expression -> YAML scalar (constants stay plain YAML values)."""
    if e[0] == 'const' and not force:
        return copy.deepcopy(e[1])
    if lang == 'jinja':
        return '{{ %s }}' % _jinja(e, task)
    return '<%% %s %%>' % _yaql(e, task)


def render_clause(entries, lang, task):
    out = []
    for en in entries:
        to = en['to']
        if to in ('fail', 'succeed', 'pause') and en.get('msg'):
            to = '%s msg="%s"' % (to, en['msg'])
        if en.get('guard') is not None:
            out.append({to: render_expr(en['guard'], lang, task, True)})
        else:
            out.append(to)
    return out


def _tag_text(wf, tname, lang):
    if wf.get('path_input'):
        if lang == 'jinja':
            return '{{ _.p }}.%s' % tname
        return '<%% $.p %%>.%s' % tname
    return '%s.%s' % (wf['name'], tname)


def render_task(wf, t):
    lang = t.get('lang') or wf.get('lang', 'yaql')
    name = t['name']
    d = {}
    body = t.get('body') or {'kind': 'sync'}
    kind = body['kind']
    wi = t.get('with_items')
    if kind in ('sync', 'async'):
        d['action'] = 'sim.%s' % kind
        inp = {'tag': _tag_text(wf, name, lang)}
        if wi:
            inp['item'] = render_expr(['var', wi['var']], lang, name)
        for k, e in sorted((body.get('input') or {}).items()):
            inp[k] = render_expr(e, lang, name)
        d['input'] = inp
    elif kind == 'noop':
        d['action'] = 'std.noop'
    elif kind == 'fail':
        d['action'] = 'std.fail'
    elif kind == 'echo':
        d['action'] = 'std.echo'
        d['input'] = {'output': render_expr(body['output'], lang, name)}
    elif kind == 'wf':
        d['workflow'] = body['wf'] if 'wf_expr' not in body else \
            render_expr(body['wf_expr'], lang, name)
        inp = {}
        if body.get('pass_path', True):
            if wi:
                if lang == 'jinja':
                    inp['p'] = '%s[{{ _.%s }}]' % (
                        _tag_text(wf, name, lang), wi['var'])
                else:
                    inp['p'] = '%s[<%% $.%s %%>]' % (
                        _tag_text(wf, name, lang), wi['var'])
            else:
                inp['p'] = _tag_text(wf, name, lang)
        for k, e in sorted((body.get('input') or {}).items()):
            inp[k] = render_expr(e, lang, name)
        if inp:
            d['input'] = inp
    elif kind == 'none':
        pass
    if wi:
        d['with-items'] = '%s in %s' % (
            wi['var'], render_expr(wi['list'], lang, name, True))
    if t.get('concurrency') is not None:
        c = t['concurrency']
        d['concurrency'] = render_expr(c, lang, name, True) \
            if isinstance(c, list) else c
    if t.get('join') is not None:
        d['join'] = t['join']
    # 'requires' holds the effective prerequisites (own + task-defaults);
    # 'own_requires', when present, is what the task itself declares
    own = t.get('own_requires', t.get('requires'))
    if own:
        d['requires'] = list(own)
    for key, yk in (('publish', 'publish'),
                    ('publish_on_error', 'publish-on-error'),
                    ('publish_on_skip', 'publish-on-skip')):
        if t.get(key):
            d[yk] = dict((v, render_expr(e, lang, name))
                         for v, e in sorted(t[key].items()))
    for key, yk in (('on_success', 'on-success'), ('on_error', 'on-error'),
                    ('on_complete', 'on-complete'), ('on_skip', 'on-skip')):
        entries = t.get(key)
        adv = (t.get('adv_publish') or {}).get(key)
        if entries is None and not adv:
            continue
        nxt = render_clause(entries or [], lang, name)
        if adv:
            pub = {}
            for scope in ('branch', 'global'):
                if adv.get(scope):
                    pub[scope] = dict((v, render_expr(e, lang, name))
                                      for v, e in sorted(adv[scope].items()))
            clause = {'publish': pub}
            if nxt:
                clause['next'] = nxt
            d[yk] = clause
        else:
            d[yk] = nxt
    r = t.get('retry')
    if r:
        rd = {'count': render_expr(r['count'], lang, name)
              if isinstance(r['count'], list) else r['count'],
              'delay': render_expr(r['delay'], lang, name)
              if isinstance(r['delay'], list) else r['delay']}
        if r.get('break_on') is not None:
            rd['break-on'] = render_expr(r['break_on'], lang, name)
        if r.get('continue_on') is not None:
            rd['continue-on'] = render_expr(r['continue_on'], lang, name)
        d['retry'] = rd
    for key, yk in (('wait_before', 'wait-before'),
                    ('wait_after', 'wait-after'), ('timeout', 'timeout'),
                    ('fail_on', 'fail-on'), ('pause_before', 'pause-before')):
        if t.get(key) is not None:
            v = t[key]
            d[yk] = render_expr(v, lang, name) if isinstance(v, list) else v
    if t.get('keep_result') is not None:
        d['keep-result'] = t['keep_result']
    if t.get('safe_rerun') is not None:
        d['safe-rerun'] = t['safe_rerun']
    return d


def render_wf(wf):
    lang = wf.get('lang', 'yaql')
    d = {}
    if wf.get('type', 'direct') != 'direct':
        d['type'] = wf['type']
    inputs = []
    if wf.get('path_input'):
        inputs.append({'p': wf['name']})
    for i in wf.get('input') or []:
        inputs.append(copy.deepcopy(i))
    if inputs:
        d['input'] = inputs
    if wf.get('vars'):
        d['vars'] = dict((k, render_expr(e, lang)) for k, e in
                         sorted(wf['vars'].items()))
    if wf.get('output') is not None:
        d['output'] = dict((k, render_expr(e, lang)) for k, e in
                           sorted(wf['output'].items()))
    if wf.get('output_on_error') is not None:
        d['output-on-error'] = dict(
            (k, render_expr(e, lang)) for k, e in
            sorted(wf['output_on_error'].items()))
    td = wf.get('task_defaults')
    if td:
        fake = dict(td, name='_defaults_', body={'kind': 'none'})
        d['task-defaults'] = render_task(wf, fake)
    d['tasks'] = dict((t['name'], render_task(wf, t)) for t in wf['tasks'])
    return d


def render_program(prog):
    """Returns {'workflows': [yaml...], 'workbooks': [yaml...]}"""
    if prog.get('workbook'):
        wb = {'version': '2.0', 'name': prog['workbook'],
              'workflows': dict((w['short'], render_wf(w))
                                for w in prog['workflows'])}
        return {'workflows': [],
                'workbooks': [yaml.safe_dump(wb, sort_keys=False,
                                             default_flow_style=False)]}
    doc = {'version': '2.0'}
    for w in prog['workflows']:
        doc[w['name']] = render_wf(w)
    return {'workflows': [yaml.safe_dump(doc, sort_keys=False,
                                         default_flow_style=False)],
            'workbooks': []}


# ----------------------------------------------------------------- generation
class Features(object):
    ALL = ('guards', 'joins', 'partial_joins', 'on_error', 'on_complete',
           'commands', 'publish', 'republish', 'bad_expr', 'errors',
           'async', 'output', 'jinja', 'with_items', 'retry', 'subwf',
           'loops', 'task_defaults', 'env', 'multi_inbound', 'std_actions',
           'global_publish', 'nested_values', 'concurrency', 'reverse')


def pick_features(rng, allowed=None, p=0.5):
    allowed = allowed if allowed is not None else Features.ALL
    return set(f for f in allowed if rng.random() < p)


def gen_program(rng, feats, max_tasks=6, name='main', depth=0, path_input=None,
                used_names=None):
    """Random direct workflow (plus children when 'subwf' is enabled)."""
    used_names = used_names if used_names is not None else set()
    used_names.add(name)
    n = rng.randint(1, max_tasks)
    lang = 'jinja' if ('jinja' in feats and rng.random() < 0.5) else 'yaql'
    wf = {'name': name, 'short': name, 'type': 'direct', 'lang': lang,
          'tasks': [], 'input': [{'x': 1}], 'path_input': bool(
              path_input if path_input is not None else depth > 0)}
    children = []
    variables = ['v%d' % i for i in range(rng.randint(1, 4))]
    names = ['t%d' % i for i in range(n)]
    tasks = []
    inbound = dict((nm, []) for nm in names)
    defined_somewhere = set()
    for i, nm in enumerate(names):
        t = {'name': nm}
        r = rng.random()
        if 'async' in feats and r < 0.2:
            t['body'] = {'kind': 'async'}
        elif 'std_actions' in feats and r < 0.3:
            t['body'] = rng.choice([{'kind': 'noop'},
                                    {'kind': 'echo', 'output':
                                     ['const', 'e%d' % i]}])
        elif 'std_actions' in feats and 'errors' in feats and r < 0.35:
            t['body'] = {'kind': 'fail'}
        elif 'subwf' in feats and depth < 2 and r < 0.5 and \
                len(used_names) < 5:
            cname = 'sub%d' % len(used_names)
            sub_feats = set(feats) - {'loops'}
            cprog = gen_program(rng, sub_feats, max_tasks=max(1, max_tasks // 2),
                                name=cname, depth=depth + 1,
                                used_names=used_names)
            children.extend(cprog['workflows'])
            t['body'] = {'kind': 'wf', 'wf': cname}
        else:
            t['body'] = {'kind': 'sync'}
        if 'with_items' in feats and rng.random() < 0.3 and \
                t['body']['kind'] in ('sync', 'async', 'wf'):
            cnt = rng.choice([0, 1, 2, 2, 3, 3, 4])
            t['with_items'] = {'var': 'i', 'n': cnt,
                               'list': ['const', list(range(cnt))]}
            if 'concurrency' in feats and rng.random() < 0.6:
                c = rng.randint(1, cnt + 1)
                t['concurrency'] = c
        tasks.append(t)
    # transitions: forward edges
    for i, t in enumerate(tasks):
        later = names[i + 1:]
        clauses = ['on_success']
        if 'on_error' in feats:
            clauses.append('on_error')
        if 'on_complete' in feats:
            clauses.append('on_complete')
        for cl in clauses:
            if not later and 'commands' not in feats:
                continue
            if rng.random() < (0.75 if cl == 'on_success' else 0.35):
                k = rng.choice([1, 1, 1, 2, 2, 3])
                targets = rng.sample(later, min(k, len(later))) if later \
                    else []
                entries = []
                for to in sorted(targets, key=names.index):
                    en = {'to': to}
                    if 'guards' in feats and rng.random() < 0.35:
                        en['guard'] = _gen_guard(rng, feats, variables)
                    entries.append(en)
                    inbound[to].append((t['name'], cl))
                if 'commands' in feats and rng.random() < 0.15:
                    cmd = rng.choice(['fail', 'succeed', 'noop'])
                    en = {'to': cmd}
                    if cmd != 'noop' and rng.random() < 0.5:
                        en['msg'] = 'm%d' % i
                    if 'guards' in feats and rng.random() < 0.3:
                        en['guard'] = _gen_guard(rng, feats, variables)
                    entries.insert(rng.randint(0, len(entries)), en)
                if entries:
                    t[cl] = entries
    # make unreachable tasks reachable sometimes / they become start tasks
    # (any task without inbound transition is a start task in Mistral)
    # joins
    for t in tasks:
        srcs = set(s for s, _ in inbound[t['name']])
        if len(srcs) >= 2 or (len(inbound[t['name']]) >= 2
                              and rng.random() < 0.3):
            if 'joins' in feats and (
                    'multi_inbound' not in feats or rng.random() < 0.8):
                if 'partial_joins' in feats and rng.random() < 0.35:
                    t['join'] = rng.choice(['one', 1] + list(range(2, len(srcs) + 1)))
                else:
                    t['join'] = 'all'
            elif 'multi_inbound' not in feats:
                # drop extra inbound edges so the task has a single parent
                keep = sorted(srcs)[0]
                for other in tasks:
                    if other['name'] == keep:
                        continue
                    for cl in ('on_success', 'on_error', 'on_complete'):
                        if other.get(cl):
                            other[cl] = [e for e in other[cl]
                                         if e['to'] != t['name']]
                            if not other[cl]:
                                del other[cl]
                inbound[t['name']] = [(s, c) for s, c in inbound[t['name']]
                                      if s == keep]
        elif 'joins' in feats and len(srcs) == 1 and rng.random() < 0.05:
            t['join'] = 'all'
    # publishing
    if 'publish' in feats:
        for i, t in enumerate(tasks):
            if rng.random() < 0.6:
                pub = {}
                for v in rng.sample(variables, rng.randint(1, len(variables))):
                    if v in defined_somewhere and 'republish' not in feats:
                        continue
                    pub[v] = _gen_value_expr(rng, feats, variables, i)
                    defined_somewhere.add(v)
                if pub:
                    t['publish'] = pub
            if 'on_error' in feats and rng.random() < 0.25:
                v = rng.choice(variables)
                if not (v in defined_somewhere and 'republish' not in feats):
                    t['publish_on_error'] = {
                        v: _gen_value_expr(rng, feats, variables, i)}
                    defined_somewhere.add(v)
            if 'global_publish' in feats and rng.random() < 0.15:
                g = 'g%d' % i
                t.setdefault('adv_publish', {})['on_success'] = {
                    'global': {g: ['const', 'G%d' % i]}}
                if t.get('publish') and rng.random() < 0.5:
                    t['adv_publish']['on_success']['branch'] = \
                        t.pop('publish')
    # retry
    if 'retry' in feats:
        for t in tasks:
            if rng.random() < 0.25 and not t.get('join') and \
                    t['body']['kind'] in ('sync', 'async', 'fail'):
                t['retry'] = {'count': rng.randint(0, 3),
                              'delay': rng.choice([0, 0, 1, 2, 5])}
                r = rng.random()
                if r < 0.2:
                    t['retry']['break_on'] = ['eq', ['res'], ['const', 'brk']]
                elif r < 0.4:
                    t['retry']['continue_on'] = \
                        ['eq', ['res'], ['const', 'again']]
    # output
    if 'output' in feats and rng.random() < 0.6:
        out = {}
        for v in variables:
            if v in defined_somewhere and rng.random() < 0.5:
                out['o_' + v] = ['var', v]
        out['k'] = ['const', 1]
        if 'bad_expr' in feats and rng.random() < 0.1:
            out['b'] = ['bad']
        wf['output'] = out
        if rng.random() < 0.4:
            wf['output_on_error'] = {'oe': ['const', 'failed']}
    if 'task_defaults' in feats and rng.random() < 0.4:
        td = {}
        if 'on_error' in feats and n > 1 and rng.random() < 0.7:
            tgt = names[-1]
            td['on_error'] = [{'to': tgt}]
        if 'retry' in feats and rng.random() < 0.3:
            td['retry'] = {'count': 1, 'delay': 0}
        if td:
            wf['task_defaults'] = td
    wf['tasks'] = tasks
    wf['variables'] = variables
    if 'env' in feats and depth == 0:
        wf['env'] = {'e1': 'E1', 'e2': 2}
    return {'workflows': [wf] + children, 'workbook': None}


def _gen_guard(rng, feats, variables):
    r = rng.random()
    if 'bad_expr' in feats and r < 0.08:
        return ['bad']
    if r < 0.35:
        return ['const', rng.random() < 0.6]
    if r < 0.7:
        return ['eq', ['res'], ['const', 'go']]
    if r < 0.85:
        return ['eq', ['var', 'x'], ['const', rng.choice([1, 2])]]
    return ['eq', ['var', rng.choice(variables)], ['const', 'go']]


def _gen_value_expr(rng, feats, variables, i):
    r = rng.random()
    if 'bad_expr' in feats and r < 0.06:
        return ['bad']
    if r < 0.45:
        return ['res']
    if r < 0.6:
        return ['const', 'c%d' % i]
    if r < 0.7:
        return ['var', 'x']
    if r < 0.8 and 'env' in feats:
        return ['env', 'e1']
    if r < 0.9 and 'nested_values' in feats:
        return ['dict', {'a': ['res'], 'b': ['dict', {'c': ['const', i]}]}]
    if r < 0.95:
        return ['inc', ['var', 'x']]
    return ['list', [['res'], ['const', i]]]


def gen_outcomes(rng, prog, feats, p_err=0.25):
    """Outcome assignment for sim actions: 'tag/item' -> list per attempt."""
    out = {}
    # Outcomes are keyed by tag; tags of nested workflows depend on the call
    # path, so a default rule (hash of tag) is used beyond explicit entries.
    return out


def default_outcome_fn(seed, p_err, vals=('go', 'stop', 'again', 'brk'),
                       special=True):
    """Deterministic pseudo-random outcome for (tag, item, attempt)."""
    import hashlib

    def fn(tag, item, n):
        h = hashlib.sha1(('%s|%s|%s|%s' % (seed, tag, item, n)).encode())
        d = h.digest()
        r = d[0] / 255.0
        if r < p_err:
            return ('err', 'E:%s/%s/%s' % (tag, item, n))
        r2 = d[1] / 255.0
        if special and r2 < 0.45:
            return ('ok', vals[d[2] % len(vals)])
        return ('ok', 'R:%s/%s/%s' % (tag, item, n))

    return fn


def all_tasks(prog):
    for w in prog['workflows']:
        for t in w['tasks']:
            yield w, t


def program_size(prog):
    return sum(len(w['tasks']) for w in prog['workflows'])
