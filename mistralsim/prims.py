"""Simulator-aware stand-ins for threading / time / concurrent.futures.

All of them fall back to harmless behaviour when called from a thread that is
not a simulator task (e.g. the scheduler thread doing a snapshot), so that
harness code can use the repository's db-api directly.
"""

import threading as _th
import time as _time

from mistralsim import core


def _sim():
    return core.current()


class SimRLock(object):
    """Replacement for base.tx_lock: outermost acquire is a yield point."""

    def __init__(self, name='tx_lock', yield_on_acquire=True):
        self.name = name
        self.owner = None
        self.depth = 0
        self.waiters = []
        self.yield_on_acquire = yield_on_acquire

    def acquire(self, blocking=True, timeout=-1):
        sim = _sim()
        me = sim.me() if sim else None
        if me is None:
            # scheduler / harness thread: only legal while free
            if self.owner is not None and self.owner != 'harness':
                raise RuntimeError('%s busy (owner=%r) while harness wants it'
                                   % (self.name, self.owner))
            self.owner = 'harness'
            self.depth += 1
            return True
        if self.owner is me:
            self.depth += 1
            return True
        if self.yield_on_acquire:
            sim.yield_point('tx', self.name)
        while self.owner is not None:
            self.waiters.append(me)
            sim.count('lock_wait:' + self.name)
            sim.block(self, 'lock', self.name)
        self.owner = me
        self.depth = 1
        return True

    def release(self):
        self.depth -= 1
        if self.depth == 0:
            self.owner = None
            sim = _sim()
            if sim:
                for w in self.waiters:
                    if w.blocked_on is self:
                        sim.unblock(w)
            self.waiters = []

    def locked(self):
        return self.owner is not None

    __enter__ = acquire

    def __exit__(self, *a):
        self.release()


class TxLock(SimRLock):
    """base.tx_lock of the simulated deployment.

    In production every process has its own tx_lock and transactions of
    different processes overlap under READ COMMITTED. All simulated nodes
    share one SQLite connection, so whole transactions stay the unit of
    interleaving, with one exception (the *overlap window*): a transaction
    that has not written anything yet may be parked right before its first
    write (its first DML statement, named lock or row lock); while it is
    parked, transactions of OTHER nodes run to completion and commit, and
    when it goes on it works with the (now stale) objects it had loaded and
    sees the newly committed rows in its next statements - which is what
    another process would experience between its reads and its first write.
    Tasks of the node of a parked transaction cannot start a transaction
    (their process-wide tx_lock is held).
    """

    def __init__(self, name='tx'):
        super(TxLock, self).__init__(name, yield_on_acquire=True)
        self.parked = {}          # task -> saved depth
        self.windows = 0.0        # probability of opening a window
        self.dirty = set()        # tasks whose current tx has written
        self.commit_count = None  # callable: number of commits so far

    def _free_for(self, me):
        if self.owner is not None:
            return False
        for t in self.parked:
            if t is not me and t.node is me.node:
                return False
        return True

    def acquire(self, blocking=True, timeout=-1):
        sim = _sim()
        me = sim.me() if sim else None
        if me is None:
            return super(TxLock, self).acquire(blocking, timeout)
        if self.owner is me:
            self.depth += 1
            return True
        if self.yield_on_acquire:
            sim.yield_point('tx', self.name)
        while not self._free_for(me):
            self.waiters.append(me)
            sim.block(self, 'lock', self.name)
        self.owner = me
        self.depth = 1
        self.dirty.discard(me)
        return True

    def release(self):
        sim = _sim()
        me = sim.me() if sim else None
        if self.depth == 1 and me is not None:
            self.dirty.discard(me)
        super(TxLock, self).release()

    def __enter__(self):
        return self.acquire()

    def _wake(self):
        sim = _sim()
        if sim:
            for w in self.waiters:
                if w.blocked_on is self:
                    sim.unblock(w)
        self.waiters = []

    def before_first_write(self, what=''):
        """Called right before the first write of the current transaction
        (first DML statement, named lock, row lock)."""
        sim = _sim()
        me = sim.me() if sim else None
        if me is None or self.owner is not me or me in self.dirty:
            return
        self.dirty.add(me)
        if not self.windows or me.node is None:
            return
        # worth a window only if a task of another node could use it
        k = 10
        if sim.draw(k, '?win') >= int(self.windows * k):
            return
        depth = self.depth
        self.parked[me] = depth
        self.owner = None
        self.depth = 0
        self._wake()
        sim.count('txwin_opened')
        c0 = self.commit_count() if self.commit_count else 0
        # how long the transaction stays parked: it gives the baton back
        # this many times before it asks for the lock again, so that other
        # nodes can get several transactions through
        hold = (1, 1, 4, 12)[sim.draw(4, '?winhold')]
        try:
            for _ in range(hold):
                sim.yield_point('txwin', what, force=True)
            while self.owner is not None:
                self.waiters.append(me)
                sim.block(self, 'lock', self.name + ':resume')
        finally:
            self.parked.pop(me, None)
        self.owner = me
        self.depth = depth
        if self.commit_count and self.commit_count() > c0:
            # another transaction committed while this one was parked
            sim.count('txwin_effective')
        # woken waiters of our own node stay blocked through _free_for()


class SimLock(SimRLock):
    """Plain mutex used for short critical sections: no yield on acquire."""

    def __init__(self, name='lock'):
        super(SimLock, self).__init__(name, yield_on_acquire=False)


class SimSemaphore(object):
    def __init__(self, value=1, name='sem', bounded=False):
        self.value = value
        self.initial = value
        self.bounded = bounded
        self.name = name
        self.waiters = []

    def acquire(self, blocking=True, timeout=None):
        sim = _sim()
        me = sim.me() if sim else None
        if me is None:
            if self.value <= 0:
                raise RuntimeError('semaphore %s would block harness'
                                   % self.name)
            self.value -= 1
            return True
        while self.value <= 0:
            if not blocking:
                return False
            self.waiters.append(me)
            sim.count('sem_wait')
            sim.block(self, 'sem', self.name)
        self.value -= 1
        return True

    def release(self, n=1):
        if self.bounded and self.value + n > self.initial:
            raise ValueError('Semaphore released too many times')
        self.value += n
        sim = _sim()
        if sim:
            for w in self.waiters:
                if w.blocked_on is self:
                    sim.unblock(w)
        self.waiters = []

    __enter__ = acquire

    def __exit__(self, *a):
        self.release()


class SimCondition(object):
    def __init__(self, lock=None):
        self._lock = lock or SimLock('cond')
        self.waiters = []

    def acquire(self, *a, **k):
        return self._lock.acquire(*a, **k)

    def release(self):
        return self._lock.release()

    def __enter__(self):
        self._lock.acquire()
        return self

    def __exit__(self, *a):
        self._lock.release()

    def wait(self, timeout=None):
        sim = _sim()
        me = sim.me()
        # release fully
        depth = self._lock.depth
        self._lock.depth = 1
        self._lock.release()
        self.waiters.append(me)
        woke = sim.wait_on(self, timeout, 'cond')
        if me in self.waiters:
            self.waiters.remove(me)
        self._lock.acquire()
        self._lock.depth = depth
        return woke

    def notify(self, n=1):
        sim = _sim()
        k = 0
        for w in list(self.waiters):
            if k >= n:
                break
            if w.blocked_on is self:
                self.waiters.remove(w)
                if sim:
                    sim.unblock(w)
                k += 1

    def notify_all(self):
        self.notify(len(self.waiters) + 1)


class SimEvent(object):
    def __init__(self):
        self._flag = False
        self.waiters = []

    def is_set(self):
        return self._flag

    def set(self):
        self._flag = True
        sim = _sim()
        if sim:
            for w in self.waiters:
                if w.blocked_on is self:
                    sim.unblock(w)
        self.waiters = []

    def clear(self):
        self._flag = False

    def wait(self, timeout=None):
        if self._flag:
            return True
        sim = _sim()
        me = sim.me() if sim else None
        if me is None:
            return self._flag
        self.waiters.append(me)
        sim.wait_on(self, timeout, 'event')
        return self._flag


class SimThread(object):
    """threading.Thread look-alike whose body runs as a simulator task."""

    _kind = 'thr'

    def __init__(self, group=None, target=None, name=None, args=(),
                 kwargs=None, daemon=None):
        self._target = target
        self._args = tuple(args)
        self._kwargs = kwargs or {}
        self.name = name or getattr(target, '__name__', 'thread')
        self.daemon = bool(daemon)
        self._task = None
        self.sim_node = None
        self.sim_label = None

    def run(self):
        if self._target is not None:
            self._target(*self._args, **self._kwargs)

    def start(self):
        sim = _sim()
        if sim is None:
            raise RuntimeError('SimThread started outside a simulation')
        label = self.sim_label or ('thr:' + _short(self.name))
        self._task = sim.spawn(label, self.run, node=self.sim_node,
                               kind=self._kind, daemon=self.daemon)
        sim.emit('spawn', self._task.label)
        sim.yield_point('spawn', self._task.label)

    def is_alive(self):
        return self._task is not None and self._task.state != 'done'

    def join(self, timeout=None):
        sim = _sim()
        t = self._task
        if t is None or t.state == 'done':
            return
        me = sim.me()
        if me is None:
            raise RuntimeError('join from harness thread')
        t.joiners.append(me)
        sim.wait_on(t, timeout, 'join')

    @property
    def ident(self):
        return id(self)


def _short(name):
    name = str(name)
    if name.startswith('_'):
        name = name[1:]
    return name[:24]


class SimTimer(SimThread):
    def __init__(self, interval, function, args=None, kwargs=None):
        super(SimTimer, self).__init__(target=function, args=args or (),
                                       kwargs=kwargs or {})
        self.interval = interval
        self._cancelled = False

    def run(self):
        sim = _sim()
        sim.sleep(self.interval)
        if not self._cancelled:
            self._target(*self._args, **self._kwargs)

    def cancel(self):
        self._cancelled = True


class SimFuture(object):
    def __init__(self):
        self._done = False
        self._result = None
        self._exc = None

    def done(self):
        return self._done

    def result(self, timeout=None):
        if self._exc:
            raise self._exc
        return self._result


class SimPool(object):
    """concurrent.futures.ThreadPoolExecutor look-alike.

    At most max_workers submitted callables run as tasks at a time; the rest
    queue in FIFO order (as the real pool's work queue does).
    """

    def __init__(self, max_workers=None, **kw):
        self.max_workers = max_workers or 4
        self.active = 0
        self.queue = []
        self._shutdown = False

    def submit(self, fn, *args, **kwargs):
        if self._shutdown:
            raise RuntimeError('cannot schedule new futures after shutdown')
        fut = SimFuture()
        self.queue.append((fn, args, kwargs, fut))
        self._pump()
        return fut

    def _pump(self):
        sim = _sim()
        while self.queue and self.active < self.max_workers:
            fn, args, kwargs, fut = self.queue.pop(0)
            self.active += 1

            def body(fn=fn, args=args, kwargs=kwargs, fut=fut):
                try:
                    fut._result = fn(*args, **kwargs)
                except Exception as e:  # real pool stores it in the future
                    fut._exc = e
                finally:
                    fut._done = True
                    self.active -= 1
                    if not self._shutdown:
                        self._pump()

            t = sim.spawn('pool:' + _short(getattr(fn, '__name__', 'job')),
                          body, kind='pool', daemon=False)
            sim.emit('spawn', t.label)

    def shutdown(self, wait=True, **kw):
        self._shutdown = True
        self.queue = []


class FakeThreading(object):
    """Module-like object to drop into `<module>.threading`."""
    Thread = SimThread
    Timer = SimTimer
    local = _th.local
    current_thread = staticmethod(_th.current_thread)
    get_ident = staticmethod(_th.get_ident)

    @staticmethod
    def RLock():
        return SimRLock('rlock', yield_on_acquire=False)

    @staticmethod
    def Lock():
        return SimLock()

    @staticmethod
    def Condition(lock=None):
        return SimCondition(lock)

    @staticmethod
    def Event():
        return SimEvent()

    @staticmethod
    def Semaphore(value=1):
        return SimSemaphore(value)

    @staticmethod
    def BoundedSemaphore(value=1):
        return SimSemaphore(value, bounded=True)


class FakeFutures(object):
    ThreadPoolExecutor = SimPool


class FakeTime(object):
    """Module-like object to drop into `<module>.time`."""

    @staticmethod
    def sleep(seconds):
        sim = _sim()
        if sim is None or sim.me() is None:
            return
        sim.sleep(seconds)

    @staticmethod
    def time():
        sim = _sim()
        if sim is None:
            return 0.0
        return 1893456000.0 + sim.vtime()

    monotonic = time
    perf_counter = time
    strftime = staticmethod(_time.strftime)
    gmtime = staticmethod(_time.gmtime)
