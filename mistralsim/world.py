"""Process boot, seams and the simulated deployment ("world") of one run."""

import datetime
import hashlib
import logging as pylogging
import os
import random as _random
import sys
import traceback

from mistralsim import core
from mistralsim import prims

_BOOTED = False
M = None   # namespace of imported mistral modules


class _NS(object):
    pass


def boot():
    """One-time process configuration. Must run before any fork workers touch
    the database (each process has its own in-memory SQLite)."""
    global _BOOTED, M
    if _BOOTED:
        return M
    from oslo_config import cfg
    from oslo_log import log as logging
    CONF = cfg.CONF
    logging.register_options(CONF)

    import mistral
    want = os.environ.get('VERIF_REPO', '/repo').rstrip('/') + '/'
    if not os.path.realpath(mistral.__file__).startswith(want):
        raise RuntimeError('mistral is not imported from /repo: %s'
                           % mistral.__file__)
    from mistral import config  # noqa registers options
    from mistral.db.sqlalchemy import base as db_base
    from mistral.db.sqlalchemy import sqlite_lock
    from mistral.db.v2 import api as db_api
    from mistral.db.v2.sqlalchemy import api as sa_api
    from mistral.db.v2.sqlalchemy import models
    from mistral import context as auth_ctx
    from mistral.engine import default_engine
    from mistral.engine import engine_server
    from mistral.engine import post_tx_queue
    from mistral.engine import task_handler
    from mistral.engine import workflow_handler
    from mistral.engine import policies
    from mistral.executors import base as exe_base
    from mistral.executors import default_executor
    from mistral.executors import executor_server
    from mistral.lang import parser as spec_parser
    from mistral.rpc import base as rpc_base
    from mistral.rpc import clients as rpc_clients
    from mistral.scheduler import base as sched_base
    from mistral.scheduler import default_scheduler
    from mistral.services import legacy_scheduler
    from mistral.services import action_heartbeat_checker as hb_checker
    from mistral.services import action_heartbeat_sender as hb_sender
    from mistral.services import actions as action_service
    from mistral.services import workflows as wf_service
    from mistral.services import workbooks as wb_service
    from mistral.services import periodic
    from mistral.services import triggers
    from mistral.services import expiration_policy
    from mistral.services import security
    from mistral.workflow import states
    from mistral.workflow import direct_workflow
    from mistral import exceptions as mexc
    from mistral import utils as mutils
    from mistral_lib import exceptions as mlexc
    from mistral_lib import utils as ml_utils
    from mistral_lib import actions as ml_actions
    from oslo_utils import timeutils
    from oslo_utils import uuidutils
    import tenacity.nap

    CONF(args=[], project='mistral', default_config_files=[])
    CONF.set_default('connection', 'sqlite://', group='database')
    CONF.set_default('max_overflow', -1, group='database')
    CONF.set_default('max_pool_size', 1000, group='database')
    CONF.set_override('only_builtin_actions', True,
                      'legacy_action_provider')
    CONF.set_override('load_action_generators', False,
                      'legacy_action_provider')
    CONF.set_override('type', 'remote', 'executor')
    CONF.set_override('auth_enable', False, 'pecan')
    CONF.set_override('debug', False)

    # Silence handlers but keep records flowing to our capture handler.
    root = pylogging.getLogger()
    for h in list(root.handlers):
        root.removeHandler(h)
    root.addHandler(pylogging.NullHandler())
    root.setLevel(pylogging.WARNING)
    for name in ('mistral', 'workflow_trace', 'oslo_db', 'sqlalchemy',
                 'stevedore', 'oslo_messaging', 'alembic'):
        pylogging.getLogger(name).setLevel(pylogging.WARNING)
    pylogging.getLogger('workflow_trace').setLevel(pylogging.ERROR)
    pylogging.getLogger('mistral.engine.task_handler').setLevel(
        pylogging.INFO)

    m = _NS()
    for k, v in list(locals().items()):
        if k not in ('m', 'k', 'v', 'root', 'h', 'name'):
            setattr(m, k, v)
    M = m

    # ---- seams (plain attribute replacement; nothing in /repo is edited)
    ft = prims.FakeThreading()
    db_base.tx_lock = prims.TxLock('tx')
    post_tx_queue.threading = ft
    default_scheduler.threading = ft
    default_scheduler.futures = prims.FakeFutures()
    legacy_scheduler.threading = ft
    hb_checker.threading = ft
    hb_sender.threading = ft
    sqlite_lock.threading = ft
    sqlite_lock._mutex = prims.SimSemaphore(1, 'sqlite_lock._mutex')
    faketime = prims.FakeTime()
    default_scheduler.time = faketime
    legacy_scheduler.time = faketime
    hb_checker.time = faketime
    hb_sender.time = faketime
    tenacity.nap.time = faketime

    class SimThreadWithException(prims.SimThread):
        _kind = 'action'

        def run(self):
            self.exception = None
            try:
                prims.SimThread.run(self)
            except Exception as e:
                self.exception = e

        def join(self, *a, **k):
            prims.SimThread.join(self, *a, **k)
            if self.exception:
                raise self.exception

    default_executor.ThreadWithException = SimThreadWithException

    # RPC driver
    from mistralsim import net
    rpc_base._IMPL_CLIENT = net.SimRPCClient
    m.net = net

    # schedulers are created per node by the world, never through stevedore
    sched_base._SCHEDULER_IMPL = None

    # random jitter of the scheduler poll loops -> seeded stream
    class _Rnd(object):
        @staticmethod
        def Random(*a):
            s = core.current()
            return s.jitter_rng if s is not None else _random.Random(0)

    default_scheduler.random = _Rnd
    legacy_scheduler.random = _Rnd

    # order-stable variant of the one address-hashed set (same elements)
    orig_find = direct_workflow.DirectWorkflowController \
        .find_indirectly_affected_task_executions

    def stable_find(self, t_name):
        res = orig_find(self, t_name)
        return sorted(res, key=lambda t: (t.name, t.id))

    direct_workflow.DirectWorkflowController \
        .find_indirectly_affected_task_executions = stable_find

    # jsonschema.validate() re-validates the (static, per-class) schema
    # against the meta-schema on every call (~0.2 s per spec); memoise that
    # step per schema object.  Instance validation is unchanged.
    import jsonschema
    from mistral.lang import base as lang_base
    from mistral.engine import base as engine_base

    class _FastJsonschema(object):
        ValidationError = jsonschema.ValidationError
        SchemaError = jsonschema.SchemaError
        _cache = {}

        @classmethod
        def validate(cls, instance, schema, *a, **kw):
            ent = cls._cache.get(id(schema))
            if ent is None or ent[0] is not schema:
                vcls = jsonschema.validators.validator_for(schema)
                vcls.check_schema(schema)
                ent = (schema, vcls(schema))
                cls._cache[id(schema)] = ent
            err = jsonschema.exceptions.best_match(
                ent[1].iter_errors(instance))
            if err is not None:
                raise err

    lang_base.jsonschema = _FastJsonschema
    engine_base.jsonschema = _FastJsonschema

    db_api.setup_db()

    from mistralsim import actions as sim_actions
    sim_actions.register()
    action_service.get_system_action_provider()
    m.sim_actions = sim_actions

    m.log_capture = LogCapture()
    pylogging.getLogger('mistral').addHandler(m.log_capture)
    pylogging.getLogger('oslo_messaging').addHandler(m.log_capture)

    _BOOTED = True
    return M


class LogCapture(pylogging.Handler):
    """Receives every record of the mistral loggers; keeps the ones that carry
    an exception (LOG.exception swallow points)."""

    def __init__(self):
        super(LogCapture, self).__init__(level=pylogging.INFO)
        self.records = []

    def emit(self, record):
        w = World.current
        if w is None:
            return
        try:
            msg = record.getMessage()
        except Exception:
            msg = ''
        if 'likely stuck' in msg:
            w.sim.count('probe:integrity_repair')
        elif 'still in WAITING state' in msg:
            w.sim.count('probe:refresh_saw_waiting')
        elif 'Unable to capture a scheduled job' in msg:
            w.sim.count('probe:memory_capture_failed')
        if record.exc_info and record.exc_info[1] is not None:
            sim = w.sim
            t = sim.me()
            w.swallowed.append((sim.step, t.label if t else '?',
                                record.name, record.getMessage()[:300],
                                record.exc_info[1]))


class Node(object):
    def __init__(self, name, kind):
        self.name = name
        self.kind = kind            # engine | executor | api | client
        self.alive = True
        self.endpoints = {}
        self.scheduler = None
        self.wf_ex_cache = {}
        self.wf_def_cache = {}
        self.hb_running = set()
        self.hb_sender_enabled = False
        self.hb_sender_stopped = True
        self.hb_checker_stopped = True
        self.generation = 0

    def __repr__(self):
        return self.name

    def __lt__(self, other):
        return self.name < other.name


DEFAULT_CFG = {
    'scheduler_type': 'legacy',       # legacy | default
    'engines': 1,
    'executors': 1,
    'executor_type': 'remote',        # remote | local
    'subwf_via_rpc': False,
    'integrity_delay': 20,            # -1 disables
    'row_order': 'none',              # none | asc | desc
    'preempt': 1.0,
    'net': 'uniform',
    'heartbeats': False,              # start heartbeat sender/checker loops
    'options': {},                    # '<group>.<opt>' -> value
    'max_latency': 0.0,
    'latency_p': 0.0,
}


class World(object):
    current = None

    def __init__(self, sim, cfg=None, seed=0):
        boot()
        self.sim = sim
        c = dict(DEFAULT_CFG)
        c.update(cfg or {})
        self.cfg = c
        self.nodes = []
        self.engine_nodes = []
        self.executor_nodes = []
        self.client_node = Node('client', 'client')
        self.api_node = Node('api', 'api')
        self.swallowed = []           # logged exceptions
        self.handler_exceptions = []  # (step, msg label, node, exc)
        self.id_counter = 0
        self.id_rng = _random.Random('ids-%s' % seed)
        self.id_order = c.get('id_order', 'random')
        self.action_runs = []         # (step, tag, item, action_ex_id, n)
        self.action_memo = {}         # action_ex_id -> outcome
        self.attempts = {}            # (tag,item) -> count
        self.outcomes = {}            # (tag,item) -> [outcome,...]
        self.default_outcome = None   # callable(tag,item,n)
        self.async_pending = []       # (action_ex_id, outcome, ctx)
        self.async_delay = None       # callable(tag) -> seconds
        self.body_delay = None        # callable(tag,item,n) -> seconds
        self.silent = set()           # action_ex ids whose body never returns
        self._active_node = None
        self.net = None
        self.recorder = None
        self.overrides = []
        self.sim.jitter_rng = _random.Random('jit-%s' % seed)
        self.id_labels = {}

    # ------------------------------------------------------------- lifecycle
    def start(self):
        m = M
        sim = self.sim
        World.current = self
        sim.activate()
        m.sim_actions.WORLD = self
        CONF = m.CONF
        c = self.cfg
        self._override('scheduler_type', c['scheduler_type'], None)
        self._override('type', c['executor_type'], 'executor')
        self._override('start_subworkflows_via_rpc', c['subwf_via_rpc'],
                       'engine')
        self._override('execution_integrity_check_delay',
                       c['integrity_delay'], 'engine')
        for k, v in sorted(c['options'].items()):
            g, o = k.split('.', 1)
            self._override(o, v, None if g == 'DEFAULT' else g)

        # clock / ids
        sim.on_clock = lambda now: m.timeutils.set_time_override(now)
        m.timeutils.set_time_override(sim.now)
        self._orig_uuid = m.uuidutils.generate_uuid
        m.uuidutils.generate_uuid = self.gen_uuid

        # fresh singletons
        m.rpc_clients.cleanup()
        m.exe_base.cleanup()
        m.sched_base._SCHEDULER = None
        m.spec_parser.clear_caches()
        m.hb_sender._running_actions = set()
        m.hb_sender._enabled = False
        m.hb_sender._stopped = True
        m.hb_checker._stopped = True
        m.sqlite_lock._locks.clear()
        m.sqlite_lock._mutex = prims.SimSemaphore(1, 'sqlite_lock._mutex')
        m.db_base.tx_lock = prims.TxLock('tx')
        m.db_base.tx_lock.windows = float(c.get('overlap', 0.0) or 0.0)

        self.net = m.net.Network(sim, self)
        self.net.profile = c['net']
        m.net.SimRPCClient.net = self.net
        sim.time_sources.append(self.net.next_delivery_time)
        sim.on_switch = self.switch_to

        for i in range(c['engines']):
            self.add_engine('engine%d' % i)
        if c['executor_type'] == 'remote':
            for i in range(c['executors']):
                self.add_executor('exec%d' % i)
        self._active_node = None

    def _override(self, opt, value, group):
        M.CONF.set_override(opt, value, group)
        self.overrides.append((opt, group))

    def stop(self):
        m = M
        try:
            self.sim.abort()
        finally:
            for opt, group in self.overrides:
                m.CONF.clear_override(opt, group)
            self.overrides = []
            m.uuidutils.generate_uuid = self._orig_uuid
            m.timeutils.clear_time_override()
            m.sim_actions.WORLD = None
            m.net.SimRPCClient.net = None
            m.sched_base._SCHEDULER = None
            m.auth_ctx.set_ctx(None)
            World.current = None
            m.db_base.tx_lock = prims.TxLock('tx')
            reset_db()

    # ------------------------------------------------------------------- ids
    def gen_uuid(self, dashed=True):
        self.id_counter += 1
        n = self.id_counter
        if self.id_order == 'asc':
            hi = n
        elif self.id_order == 'desc':
            hi = 0xffffffff - n
        else:
            hi = self.id_rng.getrandbits(32)
        s = '%08x-%04x-4000-8000-%012x' % (hi, n & 0xffff, n)
        return s if dashed else s.replace('-', '')

    # ----------------------------------------------------------------- nodes
    def add_engine(self, name):
        m = M
        node = Node(name, 'engine')
        self.nodes.append(node)
        self.engine_nodes.append(node)
        self._start_engine_services(node)
        return node

    def _start_engine_services(self, node):
        m = M
        sim = self.sim
        self._load_node(node)
        if self.cfg['scheduler_type'] == 'default':
            sched = m.default_scheduler.DefaultScheduler(m.CONF.scheduler)
        else:
            sched = m.legacy_scheduler.LegacyScheduler(m.CONF.scheduler)
        node.scheduler = sched
        m.sched_base._SCHEDULER = sched
        for attr in ('_dispatcher_thread', '_job_store_checker_thread',
                     '_thread'):
            th = getattr(sched, attr, None)
            if th is not None:
                th.sim_node = node
                th.sim_label = 'sched:%s@%s' % (
                    attr.strip('_').replace('_thread', '') or 'loop',
                    node.name)
                th.daemon = True
        self._as_node(node, sched.start)
        node.endpoints[m.CONF.engine.topic] = m.engine_server.EngineServer(
            m.default_engine.DefaultEngine(), setup_profiler=False)
        if self.cfg['heartbeats']:
            self._as_node(node, m.hb_checker.start)
            if self.cfg['executor_type'] == 'local':
                self._as_node(node, m.hb_sender.start)
        if self.cfg['executor_type'] == 'local':
            m.exe_base.get_executor('local')
        self._save_node(node)

    def add_executor(self, name):
        m = M
        node = Node(name, 'executor')
        self.nodes.append(node)
        self.executor_nodes.append(node)
        self._load_node(node)
        node.endpoints[m.CONF.executor.topic] = \
            m.executor_server.ExecutorServer(
                m.default_executor.DefaultExecutor(), setup_profiler=False)
        if self.cfg['heartbeats']:
            self._as_node(node, m.hb_sender.start)
        self._save_node(node)
        return node

    def _as_node(self, node, fn):
        """Run a service start function on the harness thread; the threads
        it starts become daemon tasks of `node`."""
        sim = self.sim
        sim.default_node, sim.default_daemon = node, True
        try:
            fn()
        finally:
            sim.default_node, sim.default_daemon = None, None

    # context switch: swap process-local singletons --------------------------
    def _save_node(self, node):
        m = M
        if node is None:
            return
        node.scheduler = m.sched_base._SCHEDULER
        node.wf_ex_cache = dict(m.spec_parser._WF_EX_CACHE)
        node.wf_def_cache = dict(m.spec_parser._WF_DEF_CACHE)
        node.hb_running = m.hb_sender._running_actions
        node.hb_sender_enabled = m.hb_sender._enabled
        node.hb_sender_stopped = m.hb_sender._stopped
        node.hb_checker_stopped = m.hb_checker._stopped

    def _load_node(self, node):
        m = M
        m.sched_base._SCHEDULER = node.scheduler
        ex, df = m.spec_parser._WF_EX_CACHE, m.spec_parser._WF_DEF_CACHE
        ex.clear()
        df.clear()
        for k, v in node.wf_ex_cache.items():
            ex[k] = v
        for k, v in node.wf_def_cache.items():
            df[k] = v
        m.hb_sender._running_actions = node.hb_running
        m.hb_sender._enabled = node.hb_sender_enabled
        m.hb_sender._stopped = node.hb_sender_stopped
        m.hb_checker._stopped = node.hb_checker_stopped
        self._active_node = node

    def switch_to(self, task):
        node = task.node
        if node is None or node.kind in ('client',):
            # clients use whatever is there but must not see a scheduler of
            # an engine: they never schedule jobs.
            return
        if node is self._active_node:
            return
        self._save_node(self._active_node)
        self._load_node(node)

    def sync_active(self):
        """Make node objects reflect the module globals (before inspecting
        node state from the harness)."""
        self._save_node(self._active_node)

    # -------------------------------------------------------------- routing
    def route(self, msg):
        cands = [n for n in self.nodes
                 if n.alive and msg.topic in n.endpoints]
        if msg.target:
            cands = [n for n in cands if n.name == msg.target] or cands
        if not cands:
            return None
        if len(cands) == 1:
            return cands[0]
        return cands[self.sim.draw(len(cands), '?route')]

    def note_handler_exception(self, msg, node, e):
        self.handler_exceptions.append(
            (self.sim.step, msg.label, node.name, e,
             traceback.format_exc()))

    # ---------------------------------------------------------------- faults
    def evict_caches(self, node=None):
        m = M
        self.sync_active()
        for n in ([node] if node else self.engine_nodes):
            n.wf_ex_cache = {}
            n.wf_def_cache = {}
        if self._active_node is not None:
            self._load_node(self._active_node)
        else:
            m.spec_parser.clear_caches()
        self.sim.count('fault:cache_evict')

    def crash_node(self, node):
        """Node dies: its tasks unwind, memory is gone, open tx rolled back."""
        sim = self.sim
        self.sync_active()
        node.alive = False
        sim.count('fault:crash:' + node.kind)
        sim.log.append((sim.step, 'sched', 'crash', node.name))
        sim.kill_node(node)
        node.endpoints = {}
        # messages whose reply nobody waits for any more are harmless; reply
        # waiters on the dead node are gone with their tasks.

    def restart_node(self, node):
        """A fresh process under the same name."""
        sim = self.sim
        node.alive = True
        node.generation += 1
        node.wf_ex_cache = {}
        node.wf_def_cache = {}
        node.hb_running = set()
        node.hb_sender_enabled = False
        node.hb_sender_stopped = True
        node.hb_checker_stopped = True
        node.scheduler = None
        sim.count('fault:restart:' + node.kind)
        sim.log.append((sim.step, 'sched', 'restart', node.name))
        prev = self._active_node
        self._save_node(prev)
        if node.kind == 'engine':
            self._start_engine_services(node)
        else:
            m = M
            self._load_node(node)
            node.endpoints[m.CONF.executor.topic] = \
                m.executor_server.ExecutorServer(
                    m.default_executor.DefaultExecutor(),
                    setup_profiler=False)
            if self.cfg['heartbeats']:
                self._as_node(node, m.hb_sender.start)
            self._save_node(node)
        if prev is not None and prev is not node:
            self._load_node(prev)

    # ----------------------------------------------------------- action body
    def action_body(self, action, action_ex_id):
        m = M
        sim = self.sim
        key = (action.tag, action.item)
        if action_ex_id is not None and action_ex_id in self.action_memo:
            n, outcome = self.action_memo[action_ex_id]
            rerun = True
        else:
            ak = self.recorder.action_key.get(action_ex_id) \
                if self.recorder is not None else None
            if ak is not None and ak[0] is not None:
                # n-th execution of this item within its task execution
                n = ak[2]
            else:
                n = self.attempts.get(key, 0)
                self.attempts[key] = n + 1
            seq = self.outcomes.get(key)
            if seq is not None and n < len(seq):
                outcome = seq[n]
            elif self.default_outcome:
                outcome = self.default_outcome(action.tag, action.item, n)
            else:
                outcome = ('ok', '%s/%s/%s' % (action.tag, action.item, n))
            if action_ex_id is not None:
                self.action_memo[action_ex_id] = (n, outcome)
            rerun = False
        self.action_runs.append((sim.step, action.tag, action.item,
                                 action_ex_id, n, rerun))
        sim.emit('action', '%s/%s/%s%s' % (action.tag, action.item, n,
                                           '+rerun' if rerun else ''))
        kind = outcome[0]
        if self.body_delay:
            d = self.body_delay(action.tag, action.item, n)
            if d:
                sim.sleep(d)
        if kind == 'silent':
            # executor never answers (lost / stuck): block forever
            sim.count('action_silent')
            ev = prims.SimEvent()
            me = sim.me()
            me.daemon = True
            while True:
                sim.block(ev, 'silent', action.tag)
        if not action.is_sync():
            ctx = m.auth_ctx.ctx() if m.auth_ctx.has_ctx() else None
            self.async_started(action_ex_id, outcome, ctx, action)
            return None
        return self.make_result(outcome)

    @staticmethod
    def make_result(outcome):
        m = M
        if outcome[0] == 'ok':
            return m.ml_actions.Result(data=outcome[1])
        if outcome[0] == 'err':
            return m.ml_actions.Result(error=outcome[1])
        if outcome[0] == 'cancel':
            return m.ml_actions.Result(error=outcome[1], cancel=True)
        raise ValueError(outcome)

    def async_started(self, action_ex_id, outcome, ctx, action):
        """External system finishes the async action later through the
        engine API (what PUT /action_executions does)."""
        m = M
        sim = self.sim
        if rerun_seen(self, action_ex_id):
            return
        self._async_seen.add(action_ex_id)
        delay = self.async_delay(action.tag) if self.async_delay else 0.0
        result = self.make_result(outcome)

        def client():
            if delay:
                sim.sleep(delay)
            m.auth_ctx.set_ctx(ctx)
            try:
                m.rpc_clients.get_engine_client().on_action_complete(
                    action_ex_id, result, async_=True)
            finally:
                m.auth_ctx.set_ctx(None)

        sim.spawn('ext:%s/%s' % (action.tag, action.item), client,
                  node=self.client_node, kind='ext')

    _async_seen = None


def rerun_seen(world, action_ex_id):
    if world._async_seen is None:
        world._async_seen = set()
    return action_ex_id in world._async_seen


# ----------------------------------------------------------------- database
_TABLES = None


def reset_db():
    """Wipe every table (between runs)."""
    global _TABLES
    m = M
    from sqlalchemy import text
    eng = m.db_base.get_engine()
    if _TABLES is None:
        md = m.models.Workbook.metadata
        import warnings
        with warnings.catch_warnings():
            warnings.simplefilter('ignore')
            _TABLES = [t.name for t in reversed(md.sorted_tables)]
    with eng.connect() as conn:
        for t in _TABLES:
            if t == 'mistral_metrics':
                continue
            conn.execute(text('DELETE FROM %s' % t))
        conn.commit()
    m.sqlite_lock._locks.clear()
    m.spec_parser.clear_caches()


def admin_ctx():
    m = M
    return m.auth_ctx.MistralContext(user_id=None, project_id=None,
                                     auth_token=None, is_admin=True)


def user_ctx(project='proj-a', user='user-a', admin=False):
    m = M
    return m.auth_ctx.MistralContext.from_dict({
        'user_name': user, 'user': user, 'project_id': project,
        'tenant': project, 'project_name': project, 'is_admin': admin})
