"""Simulated message bus behind mistral.rpc.base._IMPL_CLIENT.

The real EngineClient / ExecutorClient, the real RpcContextSerializer and the
real EngineServer / ExecutorServer endpoint methods are used; only the
transport and the server thread pool are simulated.
"""

import datetime

from oslo_messaging.rpc import client as om_client

from mistral import context as auth_ctx
from mistral.rpc import base as rpc_base

from mistralsim import core

_SER = None


def serializer():
    global _SER
    if _SER is None:
        _SER = auth_ctx.RpcContextSerializer()
    return _SER


class Message(object):
    __slots__ = ('seq', 'topic', 'method', 'ctx', 'args', 'reply_to',
                 'deliver_at', 'label', 'copy_no', 'src_node', 'is_reply',
                 'reply', 'failure', 'target', 'dropped', 'dst_node',
                 'redelivered')

    def __init__(self):
        self.copy_no = 0
        self.is_reply = False
        self.reply = None
        self.failure = None
        self.target = None
        self.dropped = False
        self.dst_node = None
        self.redelivered = False


class Waiter(object):
    def __init__(self, task):
        self.task = task
        self.done = False
        self.reply = None
        self.failure = None

    def __repr__(self):
        return 'reply-waiter'


class Network(object):
    """Holds in-flight messages; registered as a choice source of the Sim."""

    def __init__(self, sim, world):
        self.sim = sim
        self.world = world
        self.inflight = []
        self.profile = 'uniform'     # uniform | fifo | lifo
        self.latency = None          # callable(msg) -> seconds
        self.fault_hook = None       # callable(net, msg) on send
        self.delivered = []          # (step, label)
        self.sent = 0
        self.labeler = None          # callable(method, kwargs) -> entity label
        self.on_deliver = None
        sim.choice_sources.append(self.choices)

    # ---------------------------------------------------------------- send
    def send(self, topic, method, ctx, kwargs, want_reply, target=None):
        sim = self.sim
        me = sim.me()
        if me is not None and me.killed:
            raise core.SimKilled()
        ser = serializer()
        m = Message()
        m.seq = sim.next_seq()
        m.topic = topic
        m.method = method
        m.target = target
        m.ctx = ser.serialize_context(ctx) if ctx is not None else {}
        m.args = dict((k, ser.serialize_entity(ctx, v))
                      for k, v in kwargs.items())
        m.src_node = me.node if me else None
        ent = self.labeler(method, kwargs) if self.labeler else ''
        m.label = sim.uniq('msg:%s(%s)' % (method, ent))
        lat = self.latency(m) if self.latency else 0.0
        m.deliver_at = sim.now + datetime.timedelta(seconds=lat)
        waiter = None
        if want_reply:
            waiter = Waiter(me)
        m.reply_to = waiter
        self.inflight.append(m)
        self.sent += 1
        sim.count('msg_sent:' + method)
        sim.emit('send', m.label)
        if self.fault_hook:
            self.fault_hook(self, m)
        return m, waiter

    def duplicate(self, m, extra_delay=0.0, redelivered=True):
        sim = self.sim
        c = Message()
        c.seq = sim.next_seq()
        c.topic, c.method, c.target = m.topic, m.method, m.target
        c.ctx = dict(m.ctx)
        c.redelivered = redelivered
        if redelivered:
            c.ctx['redelivered'] = True
        c.args = m.args
        c.src_node = m.src_node
        c.copy_no = m.copy_no + 1
        c.label = '%s+dup%d' % (m.label, sim.next_seq())
        c.deliver_at = m.deliver_at + datetime.timedelta(seconds=extra_delay)
        c.reply_to = None   # a duplicate's reply goes nowhere
        self.inflight.append(c)
        sim.count('fault:duplicate')
        return c

    # ------------------------------------------------------------- delivery
    def choices(self, sim):
        res = []
        if not self.inflight:
            return res
        ready = [m for m in self.inflight if m.deliver_at <= sim.now]
        if not ready:
            return res
        if self.profile == 'fifo':
            ready = [min(ready, key=lambda m: m.seq)]
        elif self.profile == 'lifo':
            ready = [max(ready, key=lambda m: m.seq)]
        for m in ready:
            res.append(core.Choice(m.label, 'msg',
                                   lambda m=m: self.deliver(m)))
        return res

    def next_delivery_time(self):
        if not self.inflight:
            return None
        return min(m.deliver_at for m in self.inflight)

    def deliver(self, m):
        sim = self.sim
        self.inflight.remove(m)
        if m.is_reply:
            w = m.reply_to
            w.done = True
            w.reply = m.reply
            w.failure = m.failure
            if w.task.state == 'blocked' and w.task.blocked_on is w:
                sim.unblock(w.task)
            return
        node = self.world.route(m)
        if node is None:
            sim.count('msg_undeliverable')
            sim.log.append((sim.step, 'sched', 'undeliverable', m.label))
            # keep it queued (a broker would) until a consumer appears
            m.deliver_at = sim.now + datetime.timedelta(seconds=1)
            self.inflight.append(m)
            return
        m.dst_node = node
        sim.count('msg_delivered:' + m.method)
        self.delivered.append((sim.step, m.label))
        if self.on_deliver:
            self.on_deliver(m, node)
        label = 'rpc:%s@%s' % (m.label[4:], node.name)
        t = sim.spawn(label, lambda: self._handle(m, node), node=node,
                      kind='rpc', entity=m.label)
        return t

    def _handle(self, m, node):
        sim = self.sim
        ser = serializer()
        endpoint = node.endpoints.get(m.topic)
        reply = None
        failure = None
        try:
            ctx = ser.deserialize_context(dict(m.ctx))
            args = dict((k, ser.deserialize_entity(ctx, v))
                        for k, v in m.args.items())
            func = getattr(endpoint, m.method)
            try:
                res = func(ctx, **args)
                reply = ser.serialize_entity(ctx, res)
            except Exception as e:  # what the RPC dispatcher does
                failure = (type(e).__name__, str(e))
                self.world.note_handler_exception(m, node, e)
        finally:
            auth_ctx.set_ctx(None)
        if m.reply_to is not None:
            r = Message()
            r.seq = sim.next_seq()
            r.is_reply = True
            r.topic = m.topic
            r.method = m.method
            r.reply_to = m.reply_to
            r.reply = reply
            r.failure = failure
            r.label = 'reply:' + m.label[4:]
            r.deliver_at = sim.now
            r.src_node = node
            self.inflight.append(r)

    def drop_for_dead_waiters(self):
        pass


class SimRPCClient(rpc_base.RPCClient):
    """Driver class returned by rpc_base.get_rpc_client_driver()."""

    net = None   # set per run

    def __init__(self, conf):
        super(SimRPCClient, self).__init__(conf)
        self.topic = conf.topic

    def sync_call(self, ctx, method, target=None, **kwargs):
        net = SimRPCClient.net
        sim = net.sim
        me = sim.me()
        if me is None:
            raise RuntimeError('sync_call from non-task thread')
        m, waiter = net.send(self.topic, method, ctx, kwargs, True, target)
        while not waiter.done:
            sim.block(waiter, 'rpc-reply', m.label)
        if waiter.failure is not None:
            exc_type, value = waiter.failure
            raise om_client.RemoteError(exc_type, value)
        return serializer().deserialize_entity(ctx, waiter.reply)

    def async_call(self, ctx, method, target=None, fanout=False, **kwargs):
        net = SimRPCClient.net
        net.send(self.topic, method, ctx, kwargs, False, target)
        net.sim.yield_point('cast', method)
        return None
