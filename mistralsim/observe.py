"""Observation seams on storage: change capture, snapshots, canonical record.

Change capture uses SQLAlchemy session events (after_flush / after_commit /
after_rollback) plus wrappers around the compare-and-swap facade functions,
whose bulk UPDATE bypasses the unit of work.  Nothing in /repo is edited.
"""

import copy
import json

from sqlalchemy import event
from sqlalchemy import inspect as sa_inspect
from sqlalchemy.orm import Session
from sqlalchemy.orm import attributes

from mistralsim import world

TRACKED = {
    'workflow_executions_v2': ('state', 'state_info', 'output', 'accepted',
                               'task_execution_id', 'root_execution_id',
                               'name', 'project_id', 'params', 'input',
                               'runtime_context', 'context'),
    'task_executions_v2': ('state', 'state_info', 'processed', 'published',
                           'in_context', 'next_tasks', 'error_handled',
                           'has_next_tasks', 'name',
                           'workflow_execution_id', 'project_id',
                           'runtime_context', 'unique_key'),
    'action_executions_v2': ('state', 'accepted', 'output', 'name',
                             'task_execution_id', 'is_sync', 'project_id',
                             'runtime_context', 'last_heartbeat', 'input'),
}

_installed = False
_REC = None


def _plain(v):
    if v is None or isinstance(v, (int, float, str, bool)):
        return v
    try:
        return json.loads(json.dumps(v, default=str))
    except Exception:
        return repr(v)


class Event(object):
    __slots__ = ('seq', 'step', 'task', 'op', 'table', 'id', 'vals', 'old',
                 'committed', 'commit_step', 'stack')

    def __init__(self, seq, step, task, op, table, id_, vals, old=None):
        self.seq = seq
        self.step = step
        self.task = task
        self.op = op          # insert | update | delete | cas
        self.table = table
        self.id = id_
        self.vals = vals      # col -> new value
        self.old = old or {}  # col -> old value (when known)
        self.committed = None
        self.commit_step = None
        self.stack = None

    def __repr__(self):
        return 'Ev(%s %s %s %s %s->%s c=%s)' % (
            self.step, self.op, self.table[:4], self.id[-6:] if self.id else
            None, self.old, self.vals, self.committed)


class Recorder(object):
    """Collects the events of one run."""

    def __init__(self, sim):
        self.sim = sim
        self.events = []          # every event in occurrence order
        self.pending = {}         # id(session) -> [Event]
        self.commits = []         # (commit_no, step, task label, [Event])
        self.commit_times = []    # virtual time of each commit
        self.seq = 0
        self.cas_calls = []       # (step, task, table, id, cur, new, won)
        self.action_seq = {}      # (task_ex_id, index) -> [action_ex ids]
        self.action_key = {}      # action_ex id -> (task_ex_id, index, n)
        self.on_commit = []       # callables(recorder, commit tuple)
        self.enabled = True
        self.ctx_tags = []        # handler name stack provider
        self.n_commits_all = 0    # every session commit, tracked rows or not

    def _task_label(self):
        t = self.sim.me()
        return t.label if t else 'harness'

    def add(self, session, op, table, id_, vals, old=None):
        self.seq += 1
        ev = Event(self.seq, self.sim.step, self._task_label(), op, table,
                   id_, vals, old)
        self.events.append(ev)
        self.pending.setdefault(id(session), []).append(ev)
        return ev

    def insert_order(self):
        return dict((e.id, e.seq) for e in self.events if e.op == 'insert')

    def commit(self, session):
        self.n_commits_all += 1
        evs = self.pending.pop(id(session), [])
        if not evs:
            return
        for e in evs:
            e.committed = True
            e.commit_step = self.sim.step
        c = (len(self.commits), self.sim.step, self._task_label(), evs)
        self.commits.append(c)
        self.commit_times.append(self.sim.now)
        for cb in self.on_commit:
            cb(self, c)

    def rollback(self, session):
        evs = self.pending.pop(id(session), [])
        for e in evs:
            e.committed = False


def install():
    """Register the global listeners once per process."""
    global _installed
    if _installed:
        return
    _installed = True
    m = world.boot()
    models = m.models
    by_table = {
        'workflow_executions_v2': models.WorkflowExecution,
        'task_executions_v2': models.TaskExecution,
        'action_executions_v2': models.ActionExecution,
    }
    cls_table = dict((c, t) for t, c in by_table.items())

    @event.listens_for(Session, 'after_flush')
    def after_flush(session, flush_context):
        rec = _REC
        if rec is None or not rec.enabled:
            return
        for obj in session.new:
            t = cls_table.get(type(obj))
            if t is None:
                continue
            vals = {}
            for c in TRACKED[t]:
                vals[c] = _plain(getattr(obj, c, None))
            rec.add(session, 'insert', t, obj.id, vals)
            if t == 'action_executions_v2' or (
                    t == 'workflow_executions_v2' and
                    vals.get('task_execution_id')):
                key = (vals.get('task_execution_id'),
                       (vals.get('runtime_context') or {}).get('index', 0))
                lst = rec.action_seq.setdefault(key, [])
                rec.action_key[obj.id] = key + (len(lst),)
                lst.append(obj.id)
        for obj in session.dirty:
            t = cls_table.get(type(obj))
            if t is None:
                continue
            vals, old = {}, {}
            insp = sa_inspect(obj)
            for c in TRACKED[t]:
                h = insp.attrs[c].history
                if h.has_changes():
                    vals[c] = _plain(h.added[0] if h.added else None)
                    old[c] = _plain(h.deleted[0] if h.deleted else None)
            if vals:
                rec.add(session, 'update', t, obj.id, vals, old)
        for obj in session.deleted:
            t = cls_table.get(type(obj))
            if t is None:
                continue
            rec.add(session, 'delete', t, obj.id, {})

    @event.listens_for(Session, 'after_commit')
    def after_commit(session):
        rec = _REC
        if rec is not None and rec.enabled:
            rec.commit(session)

    @event.listens_for(Session, 'after_rollback')
    def after_rollback(session):
        rec = _REC
        if rec is not None and rec.enabled:
            rec.rollback(session)

    @event.listens_for(Session, 'after_transaction_end')
    def after_transaction_end(session, transaction):
        # A session that is closed with flushed but uncommitted changes
        # (end_tx() after an exception) fires neither after_commit nor
        # after_rollback. Its events must not stay pending: they are kept
        # under id(session), and a later session object may get the same
        # id and would "commit" them. (after_commit has already taken the
        # events of a committed transaction when this fires.)
        rec = _REC
        if rec is not None and rec.enabled and \
                getattr(transaction, 'parent', None) is None:
            rec.rollback(session)

    @event.listens_for(Session, 'after_soft_rollback')
    def after_soft_rollback(session, previous_transaction):
        rec = _REC
        if rec is not None and rec.enabled and not session.in_transaction():
            rec.rollback(session)

    # overlap windows (prims.TxLock): the first write of a transaction is
    # announced to the lock, and a transaction that was parked while another
    # one committed on the shared connection gets its BEGIN back
    from mistralsim import core as _core
    from mistralsim import prims as _prims

    @event.listens_for(m.db_base.get_engine(), 'before_cursor_execute')
    def before_cursor_execute(conn, cursor, statement, parameters, context,
                              executemany):
        lock = m.db_base.tx_lock
        if not isinstance(lock, _prims.TxLock):
            return
        sim = _core.current()
        me = sim.me() if sim else None
        if me is None or lock.owner is not me:
            return
        st = statement.lstrip()[:6].upper()
        if st in ('INSERT', 'UPDATE', 'DELETE'):
            lock.before_first_write(st)
        if st in ('BEGIN', 'PRAGMA') or not lock.windows:
            return
        try:
            dbapi = conn.connection.dbapi_connection
        except Exception:
            return
        if not dbapi.in_transaction:
            cursor.execute('BEGIN')
            conn.info['in_transaction'] = True

    orig_acquire = m.sqlite_lock.acquire_lock

    def acquire_lock(obj_id, session):
        lock = m.db_base.tx_lock
        if isinstance(lock, _prims.TxLock):
            lock.before_first_write('lock')
        return orig_acquire(obj_id, session)

    m.sqlite_lock.acquire_lock = acquire_lock

    # compare-and-swap facade functions
    sa_api = m.sa_api

    def wrap_cas(name, table):
        orig = getattr(sa_api, name)

        def wrapper(id, cur_state, state):
            res = orig(id=id, cur_state=cur_state, state=state)
            rec = _REC
            if rec is not None and rec.enabled:
                won = res is not None
                rec.cas_calls.append((rec.sim.step, rec._task_label(), table,
                                      id, cur_state, state, won))
                if won:
                    ses = m.db_base._get_thread_local_session()
                    rec.add(ses, 'cas', table, id, {'state': state},
                            {'state': cur_state})
                rec.sim.count('cas_won' if won else 'cas_lost')
            return res

        wrapper.__name__ = name
        wrapper._verif_orig = orig
        setattr(sa_api, name, wrapper)

    wrap_cas('update_workflow_execution_state', 'workflow_executions_v2')
    wrap_cas('update_task_execution_state', 'task_executions_v2')


def start(sim):
    global _REC
    install()
    _REC = Recorder(sim)
    return _REC


def stop():
    global _REC
    _REC = None


# ------------------------------------------------------------------ snapshot
def snapshot():
    """Read all execution rows (harness thread, tx_lock must be free)."""
    m = world.M
    m.auth_ctx.set_ctx(world.admin_ctx())
    try:
        with m.db_api.transaction(read_only=True):
            wfs = {}
            for w in m.db_api.get_workflow_executions(sort_keys=['id']):
                wfs[w.id] = {
                    'id': w.id, 'name': w.name, 'state': w.state,
                    'state_info': w.state_info, 'output': _plain(w.output),
                    'input': _plain(w.input), 'params': _plain(w.params),
                    'accepted': w.accepted,
                    'task_execution_id': w.task_execution_id,
                    'root_execution_id': w.root_execution_id,
                    'project_id': w.project_id,
                    'context': _plain(w.context),
                    'runtime_context': _plain(w.runtime_context),
                    'created_at': w.created_at, 'updated_at': w.updated_at,
                    'workflow_namespace': w.workflow_namespace,
                    'spec': _plain(w.spec),
                }
            tasks = {}
            for t in m.db_api.get_task_executions(sort_keys=['id']):
                tasks[t.id] = {
                    'id': t.id, 'name': t.name, 'state': t.state,
                    'state_info': t.state_info,
                    'workflow_execution_id': t.workflow_execution_id,
                    'processed': t.processed,
                    'published': _plain(t.published),
                    'in_context': _plain(t.in_context),
                    'next_tasks': _plain(t.next_tasks),
                    'error_handled': t.error_handled,
                    'has_next_tasks': t.has_next_tasks,
                    'runtime_context': _plain(t.runtime_context),
                    'unique_key': t.unique_key,
                    'project_id': t.project_id,
                    'created_at': t.created_at, 'updated_at': t.updated_at,
                    'started_at': t.started_at, 'finished_at': t.finished_at,
                    'type': t.type, 'spec': _plain(t.spec),
                }
            acts = {}
            for a in m.db_api.get_action_executions(sort_keys=['id']):
                acts[a.id] = {
                    'id': a.id, 'name': a.name, 'state': a.state,
                    'accepted': a.accepted, 'output': _plain(a.output),
                    'input': _plain(a.input),
                    'task_execution_id': a.task_execution_id,
                    'is_sync': a.is_sync,
                    'runtime_context': _plain(a.runtime_context),
                    'project_id': a.project_id,
                    'last_heartbeat': a.last_heartbeat,
                    'created_at': a.created_at, 'updated_at': a.updated_at,
                }
            jobs = []
            for j in m.db_api.get_scheduled_jobs():
                jobs.append({'id': j.id, 'func_name': j.func_name,
                             'key': j.key, 'execute_at': j.execute_at,
                             'captured_at': j.captured_at,
                             'func_args': _plain(j.func_args)})
            calls = []
            for c in m.db_api.get_delayed_calls():
                calls.append({'id': c.id,
                              'func_name': c.target_method_name,
                              'key': c.key,
                              'execute_at': c.execution_time,
                              'processing': c.processing,
                              'func_args': _plain(c.method_arguments)})
        return {'wf': wfs, 'task': tasks, 'action': acts, 'jobs': jobs,
                'calls': calls}
    finally:
        m.auth_ctx.set_ctx(None)


def quick_states():
    """Cheap digest of execution states for quiescence detection."""
    m = world.M
    from sqlalchemy import text
    eng = m.db_base.get_engine()
    out = []
    with eng.connect() as conn:
        for t in ('workflow_executions_v2', 'task_executions_v2',
                  'action_executions_v2'):
            rows = conn.execute(text(
                'SELECT id, state FROM %s ORDER BY id' % t)).fetchall()
            out.append(tuple((r[0], r[1]) for r in rows))
        rows = conn.execute(text(
            'SELECT count(*) FROM scheduled_jobs_v2')).fetchall()
        out.append(rows[0][0])
        rows = conn.execute(text(
            'SELECT count(*) FROM delayed_calls_v2')).fetchall()
        out.append(rows[0][0])
    return tuple(out)


# ---------------------------------------------------------------- canonical
def _strip(ctx):
    if not isinstance(ctx, dict):
        return ctx
    return dict((k, v) for k, v in ctx.items()
                if k not in ('__versions', '__task_execution',
                             '__execution', 'openstack'))


def state_info_class(s):
    if not s:
        return 'none'
    s = str(s)
    if 'Task timed out' in s:
        return 'timeout'
    if "Heartbeat wasn't received" in s:
        return 'heartbeat'
    if 'Failed by tasks' in s or 'failed by tasks' in s:
        return 'join-failed'
    if "fail-on" in s:
        return 'policy'
    if 'Failed to' in s and ('expression' in s.lower() or
                             'evaluate' in s.lower() or 'YAQL' in s or
                             'Jinja' in s or 'jinja' in s or 'yaql' in s):
        return 'expression-error'
    if 'Failed to' in s:
        return 'structural-error'
    if 'Failure caused by error in tasks' in s:
        return 'task-error'
    if 'Cancelled tasks' in s:
        return 'task-cancel'
    if 'One or more actions had failed' in s:
        return 'item-error'
    return 'other'


class Labels(object):
    """Maps uuids to stable labels: workflow path / task name # occurrence."""

    def __init__(self, snap, order=None):
        self.snap = snap
        order = order or {}
        self.wf = {}
        self.task = {}
        self.action = {}
        wfs, tasks, acts = snap['wf'], snap['task'], snap['action']
        # children of tasks
        wf_by_task = {}
        for w in wfs.values():
            wf_by_task.setdefault(w['task_execution_id'], []).append(w)
        tasks_by_wf = {}
        for t in tasks.values():
            tasks_by_wf.setdefault(t['workflow_execution_id'], []).append(t)
        acts_by_task = {}
        for a in acts.values():
            acts_by_task.setdefault(a['task_execution_id'], []).append(a)

        def order_key(row):
            return (order.get(row['id'], 1 << 60), row['created_at'],
                    row['id'])

        ckeys = {}

        def ckey(t, depth=0):
            k = ckeys.get(t['id'])
            if k is not None:
                return k
            tb = (t.get('runtime_context') or {}).get('triggered_by') or []
            if t.get('unique_key') or not tb or depth > 40:
                k = t['name']
            else:
                parts = []
                for tr in tb[:1]:
                    p = tasks.get(tr.get('task_id'))
                    parts.append('%s:%s' % (ckey(p, depth + 1) if p else '?',
                                            tr.get('event')))
                k = '%s(%s)' % (t['name'], ','.join(parts))
            ckeys[t['id']] = k
            return k

        def label_wf(w, path):
            self.wf[w['id']] = path
            names = {}
            ts = sorted(tasks_by_wf.get(w['id'], []),
                        key=lambda t: (t['name'], len(ckey(t)), ckey(t))
                        + order_key(t))
            for t in ts:
                n = names.get(t['name'], 0)
                names[t['name']] = n + 1
                tl = '%s/%s#%d' % (path, t['name'], n)
                self.task[t['id']] = tl
                subs = sorted(wf_by_task.get(t['id'], []),
                              key=lambda s: ((s['runtime_context'] or {})
                                             .get('index', 0),)
                              + order_key(s))
                per_idx = {}
                for s in subs:
                    idx = (s['runtime_context'] or {}).get('index', 0)
                    k = per_idx.get(idx, 0)
                    per_idx[idx] = k + 1
                    label_wf(s, '%s[%s.%d]' % (tl, idx, k))
                al = sorted(acts_by_task.get(t['id'], []),
                            key=lambda a: ((a['runtime_context'] or {})
                                           .get('index', 0),)
                            + order_key(a))
                per_idx = {}
                for a in al:
                    idx = (a['runtime_context'] or {}).get('index', 0)
                    k = per_idx.get(idx, 0)
                    per_idx[idx] = k + 1
                    self.action[a['id']] = '%s@%s.%d' % (tl, idx, k)

        roots = sorted([w for w in wfs.values()
                        if not w['task_execution_id']], key=order_key)
        names = {}
        for w in roots:
            n = names.get(w['name'], 0)
            names[w['name']] = n + 1
            label_wf(w, '%s~%d' % (w['name'], n))
        # orphans (parent task missing)
        for w in wfs.values():
            if w['id'] not in self.wf:
                label_wf(w, 'orphan:%s' % w['name'])
        for a in acts.values():
            if a['id'] not in self.action:
                self.action[a['id']] = 'adhoc:%s' % a['name']

    def any(self, id_):
        return self.wf.get(id_) or self.task.get(id_) or \
            self.action.get(id_) or id_


def canonical(snap, labels=None, with_data=True):
    """Canonical final record (DESIGN Appendix C)."""
    lab = labels or Labels(snap)
    idmap = {}
    idmap.update(lab.wf)
    idmap.update(lab.task)
    idmap.update(lab.action)

    def scrub(v):
        if isinstance(v, str):
            if v in idmap:
                return '<%s>' % idmap[v]
            if len(v) >= 36:
                for k, lv in idmap.items():
                    if k in v:
                        v = v.replace(k, '<%s>' % lv)
            return v
        if isinstance(v, list):
            return [scrub(x) for x in v]
        if isinstance(v, dict):
            return dict((k, scrub(x)) for k, x in v.items())
        return v

    acts_by_task = {}
    for a in snap['action'].values():
        acts_by_task.setdefault(a['task_execution_id'], []).append(a)
    subs_by_task = {}
    for w in snap['wf'].values():
        if w['task_execution_id']:
            subs_by_task.setdefault(w['task_execution_id'], []).append(w)

    rec = {'wf': {}, 'tasks': {}, 'counts': {
        'wf_execs': len(snap['wf']), 'task_execs': len(snap['task']),
        'action_execs': len(snap['action'])}}
    for w in snap['wf'].values():
        out = w['output']
        if isinstance(out, dict) and w['state'] in ('ERROR', 'CANCELLED'):
            out = dict((k, v) for k, v in out.items() if k != 'result')
        d = {'state': w['state'],
             'state_info_class': state_info_class(w['state_info']),
             'namespace': (w['params'] or {}).get('namespace'),
             'is_root': not w['task_execution_id'],
             'root': lab.wf.get(w['root_execution_id'])
             if w['root_execution_id'] else None}
        if with_data:
            d['output'] = scrub(_strip(out))
        rec['wf'][lab.wf[w['id']]] = d
    for t in snap['task'].values():
        al = acts_by_task.get(t['id'], []) + subs_by_task.get(t['id'], [])
        accepted = sorted(
            ((a['runtime_context'] or {}).get('index', 0))
            for a in al if a['accepted'])
        d = {'state': t['state'],
             'state_info_class': state_info_class(t['state_info']),
             'error_handled': bool(t['error_handled'])
             if t['state'] == 'ERROR' else None,
             'has_next': bool(t['has_next_tasks']),
             'n_execs': len(al),
             'accepted_indexes': accepted,
             'next': sorted(tuple(x) for x in (t['next_tasks'] or []))}
        if with_data:
            d['published'] = scrub(_strip(t['published']))
            res = []
            for a in sorted(al, key=lambda a: (
                    (a['runtime_context'] or {}).get('index', 0),
                    a['created_at'], a['id'])):
                if a['accepted']:
                    o = a['output']
                    if 'is_sync' not in a and isinstance(o, dict) and \
                            a['state'] in ('ERROR', 'CANCELLED'):
                        # failed sub-workflow: the 'result' entry is a
                        # human readable message, not data
                        o = dict((k, v) for k, v in o.items()
                                 if k != 'result')
                    if 'task_execution_id' in a and 'is_sync' in a:
                        o = (o or {}).get('result') if isinstance(o, dict) \
                            else o
                    res.append(scrub(_strip(o) if isinstance(o, dict) else o))
            d['result'] = res
        rec['tasks'][lab.task[t['id']]] = d
    return rec


def canon_json(rec):
    return json.dumps(rec, sort_keys=True, default=str)
