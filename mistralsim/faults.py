"""Fault injection at recorded steps (the list lives in the case so that a
replay re-injects exactly the same faults)."""

import datetime

from mistralsim import world


def _node(r, name):
    for n in r.world.nodes:
        if n.name == name:
            return n
    return None


def inject(r, f):
    sim = r.sim
    w = r.world
    kind = f['kind']
    sim.log.append((sim.step, 'sched', 'fault', '%s %s' % (
        kind, f.get('node') or f.get('msg') or '')))
    if kind == 'evict':
        w.evict_caches(_node(r, f['node']) if f.get('node') else None)
    elif kind == 'crash':
        n = _node(r, f['node'])
        if n is not None and n.alive:
            w.crash_node(n)
    elif kind == 'restart':
        n = _node(r, f['node'])
        if n is not None and not n.alive:
            w.restart_node(n)
    elif kind == 'stall':
        n = _node(r, f['node'])
        if n is not None:
            sim.frozen_nodes[n] = sim.now + datetime.timedelta(
                seconds=f.get('seconds', 10))
            sim.count('fault:stall')
    elif kind == 'clock_jump':
        sim.set_now(sim.now + datetime.timedelta(
            seconds=f.get('seconds', 10)))
        sim.count('fault:clock_jump')
        sim.log.append((sim.step, 'sched', 'clock', '%.3f' % sim.vtime()))
    elif kind == 'dup':
        # duplicate the k-th in-flight message that matches the method
        cands = [m for m in w.net.inflight
                 if not m.is_reply and m.copy_no == 0 and
                 (not f.get('method') or m.method == f['method'])]
        if cands:
            m = cands[f.get('index', 0) % len(cands)]
            for _ in range(f.get('copies', 1)):
                w.net.duplicate(m, extra_delay=f.get('delay', 0.0),
                                redelivered=f.get('redelivered', True))
    elif kind == 'delay':
        cands = [m for m in w.net.inflight
                 if (not f.get('method') or m.method == f['method'])]
        if cands:
            m = cands[f.get('index', 0) % len(cands)]
            m.deliver_at = max(m.deliver_at, sim.now) + datetime.timedelta(
                seconds=f.get('seconds', 5))
            sim.count('fault:delay')
    elif kind == 'drop':
        cands = [m for m in w.net.inflight
                 if not m.is_reply and
                 (not f.get('method') or m.method == f['method'])]
        if cands:
            m = cands[f.get('index', 0) % len(cands)]
            w.net.inflight.remove(m)
            sim.count('fault:drop')
    else:
        raise ValueError('unknown fault kind %s' % kind)
