"""Fault injection at recorded steps (the list lives in the case so that a
replay re-injects exactly the same faults)."""

import datetime

from mistralsim import world


def _node(r, name):
    for n in r.world.nodes:
        if n.name == name:
            return n
    return None


def inject(r, f):
    sim = r.sim
    w = r.world
    kind = f['kind']
    sim.log.append((sim.step, 'sched', 'fault', '%s %s' % (
        kind, f.get('node') or f.get('msg') or '')))
    if kind == 'evict':
        w.evict_caches(_node(r, f['node']) if f.get('node') else None)
    elif kind == 'redefine':
        # the definition of the root workflow is replaced while the run is
        # under way (the execution keeps the specification it started with)
        m = world.M
        from mistralsim import observe
        if m.db_base.tx_lock.locked() or not observe.quick_states()[0]:
            # a transaction is open at this step, or the execution has not
            # been created yet (it would legitimately start with the new
            # definition): try again after the next step
            f2 = dict(f, at_step=sim.step + 1)
            r.pending_faults.insert(0, f2)
            return
        import copy
        from mistralsim import gen
        prog = r.case.get('prog') or {}
        if prog.get('workbook') or not prog.get('workflows'):
            return
        main = copy.deepcopy(prog['workflows'][0])
        main['output'] = {'redefined': ['const', 1]}
        main.pop('output_on_error', None)
        text = gen.render_program({'workflows': [main],
                                   'workbook': None})['workflows'][0]
        m.auth_ctx.set_ctx(world.user_ctx(r.case.get('project', 'proj-a')))
        try:
            m.wf_service.update_workflows(
                text, namespace=(r.case.get('defs') or {}).get(
                    'namespace', ''))
            sim.count('fault:redefine')
        finally:
            m.auth_ctx.set_ctx(None)
    elif kind == 'crash':
        n = _node(r, f['node'])
        if n is not None and n.alive:
            w.crash_node(n)
    elif kind == 'restart':
        n = _node(r, f['node'])
        if n is not None and not n.alive:
            w.restart_node(n)
    elif kind == 'stall':
        n = _node(r, f['node'])
        if n is not None:
            sim.frozen_nodes[n] = sim.now + datetime.timedelta(
                seconds=f.get('seconds', 10))
            sim.count('fault:stall')
    elif kind == 'clock_jump':
        sim.set_now(sim.now + datetime.timedelta(
            seconds=f.get('seconds', 10)))
        sim.count('fault:clock_jump')
        sim.log.append((sim.step, 'sched', 'clock', '%.3f' % sim.vtime()))
    elif kind == 'dup':
        # duplicate the k-th in-flight message that matches the method
        cands = [m for m in w.net.inflight
                 if not m.is_reply and m.copy_no == 0 and
                 (not f.get('method') or m.method == f['method'])]
        if cands:
            m = cands[f.get('index', 0) % len(cands)]
            for _ in range(f.get('copies', 1)):
                w.net.duplicate(m, extra_delay=f.get('delay', 0.0),
                                redelivered=f.get('redelivered', True))
    elif kind == 'delay':
        cands = [m for m in w.net.inflight
                 if (not f.get('method') or m.method == f['method'])]
        if cands:
            m = cands[f.get('index', 0) % len(cands)]
            m.deliver_at = max(m.deliver_at, sim.now) + datetime.timedelta(
                seconds=f.get('seconds', 5))
            sim.count('fault:delay')
    elif kind == 'drop':
        cands = [m for m in w.net.inflight
                 if not m.is_reply and
                 (not f.get('method') or m.method == f['method'])]
        if cands:
            m = cands[f.get('index', 0) % len(cands)]
            w.net.inflight.remove(m)
            sim.count('fault:drop')
    else:
        raise ValueError('unknown fault kind %s' % kind)
