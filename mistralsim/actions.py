"""Test actions whose outcome comes from the case's outcome assignment.

They are registered through the repository's own test action provider and
travel over the simulated RPC by import path (mistralsim.actions.<Class>), the
way real actions do.
"""

from mistral_lib import actions as ml_actions

# Set by World for the duration of a run.
WORLD = None


class _Base(ml_actions.Action):
    def __init__(self, tag='', item=0, val=None):
        self.tag = tag
        self.item = item
        self.val = val

    def run(self, context):
        w = WORLD
        if w is None:
            return ml_actions.Result(data={'tag': self.tag})
        ex_id = None
        try:
            ex_id = context.execution.action_execution_id
        except Exception:
            pass
        return w.action_body(self, ex_id)


class SyncAction(_Base):
    """sim.sync — synchronous: the outcome is returned by run()."""

    def is_sync(self):
        return True


class AsyncAction(_Base):
    """sim.async — result is delivered later by an external client."""

    def is_sync(self):
        return False


def register():
    from mistral.services import actions as action_service
    p = action_service.get_test_action_provider()
    p.register_python_action('sim.sync', SyncAction)
    p.register_python_action('sim.async', AsyncAction)
