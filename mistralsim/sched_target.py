"""Target function of the scheduler harness (C13): importable path, records
its invocations in the running world."""

from mistralsim import core
from mistralsim import world


def record(tag, dur=0):
    w = world.World.current
    sim = core.current()
    if w is None or sim is None:
        return
    t = sim.me()
    rec = {'tag': tag, 'at': sim.now, 'step': sim.step,
           'node': t.node.name if t and t.node else None, 'done': False}
    w.invocations.append(rec)
    sim.emit('invoke', tag)
    hook = getattr(w, 'invoke_hook', None)
    if hook is not None:
        hook(rec)
    # a real job opens a transaction first: a point where the process can be
    # pre-empted or die while the job is under way
    sim.yield_point('job')
    if dur:
        sim.sleep(dur)
    rec['done'] = True
    rec['done_at'] = sim.now
