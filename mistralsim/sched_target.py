"""Target function of the scheduler harness (C13): importable path, records
its invocations in the running world."""

from mistralsim import core
from mistralsim import world


def record(tag, dur=0):
    w = world.World.current
    sim = core.current()
    if w is None or sim is None:
        return
    t = sim.me()
    rec = {'tag': tag, 'at': sim.now, 'step': sim.step,
           'node': t.node.name if t and t.node else None, 'done': False}
    w.invocations.append(rec)
    sim.emit('invoke', tag)
    if dur:
        sim.sleep(dur)
    rec['done'] = True
    rec['done_at'] = sim.now
