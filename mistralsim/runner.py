"""Executes one case (program + config + outcomes + ops + faults + schedule)
inside the simulator and returns everything the oracles need."""

import datetime
import json
import time as _wall
import traceback

from mistralsim import core
from mistralsim import observe
from mistralsim import world


class RunResult(object):
    def __init__(self):
        self.status = 'ok'        # ok | inconclusive | harness_error
        self.reason = ''
        self.snap = None
        self.labels = None
        self.canon = None
        self.recorder = None
        self.sim = None
        self.world_info = {}
        self.foreign = []         # non-Mistral exceptions (C01 discipline)
        self.all_exceptions = []
        self.violations = []      # (invariant id, message) from online monitors
        self.ops_log = []
        self.start_results = []
        self.wall = 0.0
        self.quiescent_reason = ''
        self.extra = {}

    def stats(self):
        return self.sim.stats if self.sim else {}


def _is_mistral_exc(e):
    m = world.M
    return isinstance(e, (m.mexc.MistralException, m.mlexc.MistralException,
                          m.mexc.MistralError))


class Case(dict):
    pass


def default_case():
    return {
        'format': 1, 'property': '', 'seed': 0,
        'config': dict(world.DEFAULT_CFG),
        'defs': {'workflows': [], 'workbooks': []},
        'starts': [],     # {'wf','input','params','project','at_step'}
        'outcomes': {},   # 'tag/item' -> [[kind, data], ...]
        'ops': [], 'faults': [], 'schedule': None,
    }


class Runner(object):
    """One simulated execution. Subclass hooks: setup(), on_idle(), finish().
    """

    quiesce_window = 420.0     # virtual seconds without any row change

    def __init__(self, case, monitors=None, max_steps=None):
        self.case = case
        self.cfg = dict(world.DEFAULT_CFG)
        self.cfg.update(case.get('config') or {})
        if any('crash' in str(f.get('kind')) for f in
               case.get('faults') or []) \
                or case.get('handoff_crash') is not None:
            # a crash unwinds the open transaction of the node: no parked
            # transactions then (they share the connection with the others)
            self.cfg['overlap'] = 0.0
        self.res = RunResult()
        self.monitor_factories = monitors or []
        self.max_steps = max_steps or case.get('max_steps', 6000)
        self.pending_ops = []
        self.last_digest = None
        self.last_change = 0.0
        self.ops_done = 0
        self.auto_resumed = 0

    # ------------------------------------------------------------------ run
    def run(self):
        t0 = _wall.time()
        m = world.boot()
        case = self.case
        sim = core.Sim(case['seed'], schedule=case.get('schedule'),
                       preempt=self.cfg.get('preempt', 1.0),
                       max_steps=self.max_steps,
                       max_vtime=case.get('max_vtime', 7200.0))
        self.sim = sim
        self.res.sim = sim
        w = world.World(sim, self.cfg, case['seed'])
        self.world = w
        rec = observe.start(sim)
        self.rec = rec
        w.recorder = rec
        self.res.recorder = rec
        try:
            w.start()
            m.db_base.tx_lock.commit_count = lambda: rec.n_commits_all
            self._load_outcomes()
            self._install_row_order()
            self.setup()
            for mf in self.monitor_factories:
                mf(self)
            try:
                sim.run(until=self._until)
            except core.StepLimit as e:
                self.res.status = 'inconclusive'
                self.res.reason = str(e)
            except core.Deadlock as e:
                self.res.status = 'ok'
                self.res.extra['deadlock'] = str(e)
            self._collect()
            self.finish()
        except core.ReplayDiverged as e:
            self.res.status = 'harness_error'
            self.res.reason = 'replay-diverged: %s' % e
        except Exception as e:
            self.res.status = 'harness_error'
            self.res.reason = '%s: %s\n%s' % (type(e).__name__, e,
                                              traceback.format_exc())
        finally:
            observe.stop()
            self._remove_row_order()
            try:
                w.stop()
            except Exception as e:
                if self.res.status == 'ok':
                    self.res.status = 'harness_error'
                    self.res.reason = 'stop: %s\n%s' % (
                        e, traceback.format_exc())
        self.res.wall = _wall.time() - t0
        return self.res

    # ---------------------------------------------------------------- set-up
    def _load_outcomes(self):
        w = self.world
        for k, seq in (self.case.get('outcomes') or {}).items():
            tag, item = k.rsplit('/', 1)
            w.outcomes[(tag, int(item))] = [tuple(o) for o in seq]
        if self.case.get('outcome_seed') is not None:
            from mistralsim import gen
            w.default_outcome = gen.default_outcome_fn(
                self.case['outcome_seed'], self.case.get('p_err', 0.25),
                special=self.case.get('outcome_special', True))

    def _install_row_order(self):
        mode = self.cfg.get('row_order', 'none')
        self._row_listener = None
        if mode == 'none':
            return
        from sqlalchemy import event
        from sqlalchemy.orm import Session
        m = world.M
        tables = {
            m.models.WorkflowExecution.__table__,
            m.models.TaskExecution.__table__,
            m.models.ActionExecution.__table__,
        }
        sim = self.sim

        def listener(state):
            if not state.is_select:
                return
            stmt = state.statement
            try:
                if getattr(stmt, '_order_by_clauses', None):
                    return
                if getattr(stmt, '_limit_clause', None) is not None and \
                        False:
                    return
                froms = stmt.get_final_froms()
                if len(froms) != 1 or froms[0] not in tables:
                    return
                if getattr(stmt, '_for_update_arg', None) is not None:
                    pass
                raw = stmt.column_descriptions
                if not raw:
                    return
                col = froms[0].c.id
                state.statement = stmt.order_by(
                    col.asc() if mode == 'asc' else col.desc())
                sim.count('row_order_applied')
            except Exception:
                return

        event.listen(Session, 'do_orm_execute', listener)
        self._row_listener = listener

    def _remove_row_order(self):
        if getattr(self, '_row_listener', None) is not None:
            from sqlalchemy import event
            from sqlalchemy.orm import Session
            event.remove(Session, 'do_orm_execute', self._row_listener)
            self._row_listener = None

    def setup(self):
        """Create definitions and spawn the client that starts workflows."""
        m = world.M
        case = self.case
        defs = case.get('defs') or {}
        by_project = defs.get('by_project')
        if by_project is None:
            by_project = {case.get('project', 'proj-a'): defs}
        for project in sorted(by_project):
            d = by_project[project]
            m.auth_ctx.set_ctx(world.user_ctx(project))
            try:
                ns = d.get('namespace', defs.get('namespace', ''))
                scope = d.get('scope', 'private')
                for wb in d.get('workbooks') or []:
                    m.wb_service.create_workbook_v2(wb, namespace=ns,
                                                    scope=scope)
                for wf in d.get('workflows') or []:
                    m.wf_service.create_workflows(wf, namespace=ns,
                                                  scope=scope)
                for env in d.get('environments') or []:
                    with m.db_api.transaction():
                        m.db_api.create_environment(dict(env))
            finally:
                m.auth_ctx.set_ctx(None)
        # extra definition groups: [{'project', 'namespace', 'workflows'}]
        for g in defs.get('groups') or []:
            m.auth_ctx.set_ctx(world.user_ctx(g.get('project', 'proj-a')))
            try:
                for wf in g.get('workflows') or []:
                    m.wf_service.create_workflows(
                        wf, namespace=g.get('namespace', ''),
                        scope=g.get('scope', 'private'))
            finally:
                m.auth_ctx.set_ctx(None)
        for i, st in enumerate(case.get('starts') or []):
            self._spawn_start(i, st)
        self.pending_ops = sorted(
            [dict(op, _i=i) for i, op in enumerate(case.get('ops') or [])
             if op.get('at_time') is None],
            key=lambda o: (o.get('at_step', 0), o['_i']))
        for i, op in enumerate(case.get('ops') or []):
            if op.get('at_time') is not None:
                # issued at a virtual time (seconds after the start)
                self.sim.add_timer(op['at_time'], 'op',
                                   lambda op=dict(op, _i=i):
                                   self.issue_op(op))
        if case.get('async_delays'):
            ad = case['async_delays']
            self.world.async_delay = lambda tag: ad.get(tag, 0.0)
        if case.get('body_delays'):
            bd = case['body_delays']
            self.world.body_delay = lambda tag, item, n: bd.get(tag, 0.0)
        if self.pending_ops or case.get('faults'):
            self.sim.monitors.append(self._inject_due)
        self.pending_faults = sorted(
            [dict(f, _i=i) for i, f in enumerate(case.get('faults') or [])
             if f.get('at_step') is not None],
            key=lambda o: (o.get('at_step', 0), o['_i']))

    def _spawn_start(self, i, st):
        m = world.M
        sim = self.sim
        project = st.get('project', 'proj-a')

        def client():
            if st.get('delay'):
                sim.sleep(st['delay'])
            m.auth_ctx.set_ctx(world.user_ctx(project))
            try:
                try:
                    r = m.rpc_clients.get_engine_client().start_workflow(
                        st['wf'], st.get('namespace', ''),
                        st.get('wf_ex_id'),
                        json.loads(json.dumps(st.get('input') or {})),
                        st.get('description', ''),
                        **json.loads(json.dumps(st.get('params') or {})))
                    self.res.start_results.append((i, 'ok', r))
                except Exception as e:
                    self.res.start_results.append((i, 'exc', e))
            finally:
                m.auth_ctx.set_ctx(None)

        sim.spawn('client:start%d' % i, client, node=self.world.client_node,
                  kind='client')

    # ------------------------------------------------------------ injection
    def _inject_due(self, sim):
        while self.pending_ops and \
                self.pending_ops[0].get('at_step', 0) <= sim.step:
            op = self.pending_ops.pop(0)
            self.issue_op(op)
        while self.pending_faults and \
                self.pending_faults[0].get('at_step', 0) <= sim.step:
            f = self.pending_faults.pop(0)
            self.inject_fault(f)

    def issue_op(self, op):
        """Overridden / extended by ops module."""
        from mistralsim import ops
        ops.issue(self, op)

    def inject_fault(self, f):
        from mistralsim import faults
        faults.inject(self, f)

    # ----------------------------------------------------------- quiescence
    def _all_terminal_and_drained(self, digest):
        wf_states = [s for _, s in digest[0]]
        if not wf_states:
            return False
        if any(s not in ('SUCCESS', 'ERROR', 'CANCELLED') for s in wf_states):
            return False
        return True

    def _until(self, sim):
        """Called when nothing is runnable/deliverable at the current time."""
        if self.world.net.inflight:
            return False
        if world.M.db_base.tx_lock.locked():
            return False
        for t in sim.tasks:
            if t.state != 'done' and not t.daemon:
                return False
        d = observe.quick_states()
        now = sim.vtime()
        if d != self.last_digest:
            self.last_digest = d
            self.last_change = now
        if not d[0] and not (self.case.get('starts')):
            return self.on_idle_no_workflows(sim)
        quiet = None
        settle = self.case.get('settle', None)
        if self._all_terminal_and_drained(d):
            # everything finished: still let late timers fire for `settle`
            # virtual seconds (default: until no job other than integrity
            # checks is pending)
            if settle is None:
                if not self._non_integrity_jobs():
                    quiet = 'terminal'
            elif now - self.last_change >= settle:
                quiet = 'terminal+settle'
        if quiet is None and d[0] and \
                all(st in ('SUCCESS', 'ERROR', 'CANCELLED', 'PAUSED')
                    for _, st in d[0]) and \
                any(st == 'PAUSED' for _, st in d[0]) and \
                not self._non_integrity_jobs() and \
                now - self.last_change >= self.case.get('paused_settle', 3):
            quiet = 'paused'
        window = self.case.get('quiesce_window', self.quiesce_window)
        if quiet is None and now - self.last_change >= window:
            quiet = 'stable'
        if quiet is None:
            return False
        # the run has drained: operator commands / faults scheduled for a
        # later step are issued now, one at a time
        if self.pending_ops or self.pending_faults:
            # the next command - and the ones scheduled for the very same
            # step with it: they are meant to be in flight together
            if self.pending_ops:
                s0 = self.pending_ops[0].get('at_step', 0)
                nxt_ops = [o for o in self.pending_ops
                           if o.get('at_step', 0) == s0]
            else:
                nxt_ops = self.pending_faults[:1]
            for o in nxt_ops:
                o['at_step'] = min(o.get('at_step', 0), sim.step)
            self._inject_due(sim)
            self.last_change = now
            return False
        # operator that resumes whatever is left paused (bounded)
        n_auto = self.case.get('auto_resume', 0)
        if n_auto and self.auto_resumed < n_auto and \
                any(s == 'PAUSED' for _, s in d[0]):
            self.auto_resumed += 1
            self.issue_op({'op': 'resume', 'target': 'paused', 'auto': True,
                           'via': 'rest', '_i': 1000 + self.auto_resumed})
            self.last_change = now
            return False
        self.res.quiescent_reason = quiet
        return True

    def on_idle_no_workflows(self, sim):
        return True

    def _non_integrity_jobs(self):
        m = world.M
        from sqlalchemy import text
        eng = m.db_base.get_engine()
        with eng.connect() as conn:
            a = conn.execute(text(
                "SELECT count(*) FROM scheduled_jobs_v2 WHERE func_name "
                "NOT LIKE '%_check_and_fix_integrity'")).fetchall()[0][0]
            b = conn.execute(text(
                "SELECT count(*) FROM delayed_calls_v2 WHERE "
                "target_method_name NOT LIKE '%_check_and_fix_integrity'")
            ).fetchall()[0][0]
        return a + b

    # -------------------------------------------------------------- results
    def _collect(self):
        m = world.M
        res = self.res
        w = self.world
        sim = self.sim
        res.snap = observe.snapshot()
        res.labels = observe.Labels(res.snap, self.rec.insert_order())
        res.canon = observe.canonical(res.snap, res.labels)
        allx = []
        for label, e in sim.task_errors:
            allx.append(('task', label, e, None))
        for step, mlabel, node, e, tb in w.handler_exceptions:
            allx.append(('handler', mlabel, e, tb))
        for step, tlabel, logger, msg, e in w.swallowed:
            allx.append(('logged', '%s %s: %s' % (tlabel, logger, msg[:80]),
                         e, None))
        res.all_exceptions = allx
        res.extra['handler_exc'] = list(w.handler_exceptions)
        seen = set()
        for kind, where, e, tb in allx:
            if _is_mistral_exc(e):
                continue
            if isinstance(e, (core.SimKilled, core.SimAbort)):
                continue    # simulator's own crash / teardown signal
            if id(e) in seen:
                continue
            seen.add(id(e))
            res.foreign.append((kind, where, e, tb))
        res.world_info = {
            'action_runs': list(w.action_runs),
            'delivered': list(w.net.delivered),
            'sent': w.net.sent,
        }

    def finish(self):
        pass


def run_case(case, **kw):
    return Runner(case, **kw).run()
