"""Deterministic simulator for openstack/mistral (see /verif/DESIGN.md)."""
