"""Operator commands issued by simulated clients at recorded steps.

Targets are labels (root index / workflow path / task name), resolved to ids
when the command is issued.
"""

import json

from mistralsim import observe
from mistralsim import world


def _resolve_wf(r, target):
    """target: 'root' | 'root:<n>' | label prefix of a workflow execution
    | {'task': <task name>, 'index': i} -> sub-workflow of that task."""
    snap = observe.snapshot()
    labels = observe.Labels(snap, r.rec.insert_order())
    if target in (None, 'root'):
        for wid, lab in sorted(labels.wf.items(), key=lambda x: x[1]):
            if not snap['wf'][wid]['task_execution_id']:
                return wid, snap, labels
        return None, snap, labels
    if target == 'paused':
        # topmost execution that is PAUSED
        cands = []
        for wid, w in snap['wf'].items():
            if w['state'] != 'PAUSED':
                continue
            pt = snap['task'].get(w['task_execution_id'])
            pw = snap['wf'].get(pt['workflow_execution_id']) if pt else None
            if pw is None or pw['state'] != 'PAUSED':
                cands.append((labels.wf.get(wid, wid), wid))
        if cands:
            return sorted(cands)[0][1], snap, labels
        return None, snap, labels
    if isinstance(target, str) and target.startswith('sub:'):
        k = int(target[4:])
        subs = sorted((lab, wid) for wid, lab in labels.wf.items()
                      if snap['wf'][wid]['task_execution_id'])
        if subs:
            return subs[k % len(subs)][1], snap, labels
        return None, snap, labels
    for wid, lab in labels.wf.items():
        if lab == target:
            return wid, snap, labels
    return None, snap, labels


def _resolve_task(r, target):
    snap = observe.snapshot()
    labels = observe.Labels(snap, r.rec.insert_order())
    if isinstance(target, dict):
        cands = sorted((lab, tid) for tid, lab in labels.task.items()
                       if snap['task'][tid]['state'] == target.get(
                           'state', 'ERROR'))
        if target.get('name'):
            cands = [c for c in cands if
                     snap['task'][c[1]]['name'] == target['name']]
        if target.get('wf'):
            cands = [c for c in cands if (snap['wf'].get(
                snap['task'][c[1]]['workflow_execution_id']) or {}).get(
                    'name') == target['wf']]
        if cands:
            return cands[target.get('index', 0) % len(cands)][1], snap, labels
        return None, snap, labels
    for tid, lab in labels.task.items():
        if lab == target:
            return tid, snap, labels
    return None, snap, labels


def _resolve_action(r, target):
    """target: {'state': <state or None>, 'index': i, 'sync': bool|None}."""
    snap = observe.snapshot()
    labels = observe.Labels(snap, r.rec.insert_order())
    target = target or {}
    cands = []
    for aid, lab in labels.action.items():
        a = snap['action'][aid]
        if target.get('state') and a['state'] != target['state']:
            continue
        if target.get('sync') is not None and \
                bool(a['is_sync']) != bool(target['sync']):
            continue
        cands.append((lab, aid))
    cands.sort()
    if cands:
        return cands[target.get('index', 0) % len(cands)][1], snap, labels
    return None, snap, labels


def issue(r, op):
    m = world.M
    sim = r.sim
    kind = op['op']
    project = op.get('project', 'proj-a')
    entry = {'op': dict((k, v) for k, v in op.items() if k != '_i'),
             'issued_step': sim.step, 'result': None, 'done_step': None,
             'target_label': None, 'target_id': None}
    r.res.ops_log.append(entry)

    def _ctx():
        m.auth_ctx.set_ctx(world.user_ctx(project, admin=op.get('admin',
                                                               False)))

    def client():
        eng = m.rpc_clients.get_engine_client()
        try:
            try:
                if kind in ('pause', 'resume', 'stop'):
                    # resolve inside the task: ids exist only after start
                    wid, snap, labels = _resolve_wf(r, op.get('target'))
                    entry['target_id'] = wid
                    entry['target_label'] = labels.wf.get(wid)
                    entry['state_before'] = snap['wf'][wid]['state'] \
                        if wid else None
                    if wid is None:
                        entry['result'] = ('skipped', 'no target')
                        return
                    if op.get('via', 'rest') == 'rest':
                        from mistralsim import rest
                        body = {'state': {'pause': 'PAUSED',
                                          'resume': 'RUNNING'}.get(
                                              kind, op.get('state'))}
                        if kind == 'stop' and op.get('message'):
                            body['state_info'] = op['message']
                        if kind == 'resume' and op.get('env'):
                            body['params'] = {'env': op['env']}
                        code, data = rest.call(
                            'PUT', '/v2/executions/%s' % wid, body,
                            world.user_ctx(project,
                                           admin=op.get('admin', False)))
                        entry['http'] = code
                        if code == 200:
                            entry['result'] = ('ok', data.get('state'))
                        else:
                            entry['result'] = ('http', code, str(data)[:300])
                        return
                    _ctx()
                    if kind == 'pause':
                        res = eng.pause_workflow(wid)
                    elif kind == 'resume':
                        res = eng.resume_workflow(wid, env=op.get('env'))
                    else:
                        res = eng.stop_workflow(wid, op['state'],
                                                op.get('message'))
                    entry['result'] = ('ok', (res or {}).get('state')
                                       if isinstance(res, dict) else None)
                elif kind in ('rerun', 'skip'):
                    tid, snap, labels = _resolve_task(r, op.get('target'))
                    entry['target_id'] = tid
                    entry['target_label'] = labels.task.get(tid)
                    if tid is None:
                        entry['result'] = ('skipped', 'no target')
                        return
                    entry['state_before'] = snap['task'][tid]['state']
                    if op.get('via', 'rest') == 'rest':
                        from mistralsim import rest
                        body = {'state': 'SKIPPED' if kind == 'skip'
                                else 'RUNNING'}
                        if kind == 'rerun':
                            body['reset'] = bool(op.get('reset', True))
                        if op.get('env'):
                            body['env'] = json.dumps(op['env'])
                        code, data = rest.call(
                            'PUT', '/v2/tasks/%s' % tid, body,
                            world.user_ctx(project,
                                           admin=op.get('admin', False)))
                        entry['http'] = code
                        if code == 200:
                            entry['result'] = ('ok', data.get('state'))
                        else:
                            entry['result'] = ('http', code, str(data)[:300])
                        return
                    _ctx()
                    res = eng.rerun_workflow(tid, reset=op.get('reset', True),
                                             skip=(kind == 'skip'),
                                             env=op.get('env'))
                    entry['result'] = ('ok', None)
                elif kind == 'action_update':
                    # external system / operator: PUT /action_executions
                    aid, snap, labels = _resolve_action(r, op.get('target'))
                    entry['target_id'] = aid
                    entry['target_label'] = labels.action.get(aid)
                    if aid is None:
                        entry['result'] = ('skipped', 'no target')
                        return
                    entry['state_before'] = snap['action'][aid]['state']
                    state = op.get('state', 'SUCCESS')
                    if op.get('via', 'rest') == 'rest':
                        from mistralsim import rest
                        body = {'state': state}
                        if state in ('SUCCESS', 'ERROR'):
                            body['output'] = json.dumps(
                                op.get('output', {'ext': 'upd'}))
                        code, data = rest.call(
                            'PUT', '/v2/action_executions/%s' % aid, body,
                            world.user_ctx(project,
                                           admin=op.get('admin', False)))
                        entry['http'] = code
                        if code == 200:
                            entry['result'] = ('ok', data.get('state'))
                        else:
                            entry['result'] = ('http', code, str(data)[:300])
                        return
                    _ctx()
                    if state in ('PAUSED', 'RUNNING'):
                        res = eng.on_action_update(aid, state)
                    else:
                        out = op.get('output', {'ext': 'upd'})
                        if state == 'SUCCESS':
                            result = m.ml_actions.Result(data=out)
                        elif state == 'ERROR':
                            result = m.ml_actions.Result(error=out)
                        else:
                            result = m.ml_actions.Result(cancel=True)
                        res = eng.on_action_complete(aid, result)
                    entry['result'] = ('ok', (res or {}).get('state')
                                       if isinstance(res, dict) else None)
                else:
                    raise ValueError('unknown op %s' % kind)
            except Exception as e:
                entry['result'] = ('exc', type(e).__name__, str(e)[:300])
        finally:
            entry['done_step'] = sim.step
            entry['done_commit'] = len(r.rec.commits)
            m.auth_ctx.set_ctx(None)

    sim.spawn('op:%s' % kind, client, node=r.world.client_node, kind='op')
