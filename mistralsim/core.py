"""Baton-passing deterministic scheduler.

Every activity is a real thread, but exactly one thread runs at a time: the
one holding the baton.  The scheduler (the thread that called Sim.run) decides
with a seeded PRNG (or a recorded schedule) which task runs next, when the
virtual clock advances and which in-flight message is delivered.

Nothing in here reads a wall clock or an address; the event log never draws
from the PRNG.
"""

import datetime
import hashlib
import heapq
import random
import threading

_real_threading_local = threading.local


class SimKilled(BaseException):
    """Raised inside a task of a crashed node at its next yield point."""


class SimAbort(BaseException):
    """Raised inside every task when a run is torn down."""


class Deadlock(Exception):
    pass


class StepLimit(Exception):
    pass


class ReplayDiverged(Exception):
    pass


EPOCH = datetime.datetime(2030, 1, 1, 0, 0, 0, 250000)

_current = None  # the Sim that owns the process right now


def current():
    return _current


class SimTask(object):
    __slots__ = ('sim', 'label', 'kind', 'node', 'thread', 'sem', 'state',
                 'wake_at', 'blocked_on', 'fn', 'exc', 'killed', 'result',
                 'seq', 'joiners', 'daemon', 'entity', 'started', 'stack_tag')

    def __init__(self, sim, label, kind, node, fn, daemon, entity):
        self.sim = sim
        self.label = label
        self.kind = kind
        self.node = node
        self.fn = fn
        self.sem = threading.Semaphore(0)
        self.state = 'runnable'   # runnable | blocked | sleeping | done
        self.wake_at = None
        self.blocked_on = None
        self.exc = None
        self.killed = False
        self.result = None
        self.thread = None
        self.joiners = []
        self.daemon = daemon
        self.entity = entity
        self.started = False
        self.stack_tag = None

    def __repr__(self):
        return '<SimTask %s %s>' % (self.label, self.state)


class Choice(object):
    __slots__ = ('label', 'kind', 'obj')

    def __init__(self, label, kind, obj):
        self.label = label
        self.kind = kind
        self.obj = obj


class Sim(object):
    def __init__(self, seed, schedule=None, preempt=1.0, max_steps=20000,
                 max_vtime=7200.0):
        self.seed = seed
        self.rng = random.Random(seed)
        self.now = EPOCH
        self.tasks = []
        self.timers = []          # heap of (time, seq, label, callback)
        self._seq = 0
        self.log = []             # (step, actor label, kind, detail)
        self.step = 0
        self.replay = list(schedule) if schedule is not None else None
        self.replay_pos = 0
        self.schedule = []        # choices taken: [index, label]
        self.preempt = preempt
        self.max_steps = max_steps
        self.max_vtime = max_vtime
        self.current_task = None
        self._sched_sem = threading.Semaphore(0)
        self.label_counts = {}
        self.monitors = []        # callables(sim) run after every step
        self.choice_sources = []  # callables(sim) -> list of Choice
        self.on_switch = None     # callable(task) before a task gets baton
        self.on_clock = None      # callable(now)
        self.task_errors = []     # (label, exception)
        self.stats = {}
        self.tl = _real_threading_local()
        self.aborting = False
        self.idle_hooks = []      # callables(sim) -> bool (did something)
        self.frozen_nodes = {}    # node -> until (virtual time)
        self.quiescence_filter = None
        self.sig = hashlib.sha1()  # interleaving signature
        self.concurrent_steps = 0
        self.time_sources = []    # callables() -> next datetime or None
        self.jitter_rng = random.Random('jit-%s' % seed)
        self.default_node = None
        self.default_daemon = None

    def activate(self):
        global _current
        _current = self

    # ------------------------------------------------------------------ util
    def count(self, key, n=1):
        self.stats[key] = self.stats.get(key, 0) + n

    def uniq(self, base):
        n = self.label_counts.get(base, 0)
        self.label_counts[base] = n + 1
        return '%s#%d' % (base, n)

    def next_seq(self):
        self._seq += 1
        return self._seq

    def emit(self, kind, detail=''):
        t = self.current_task
        self.log.append((self.step, t.label if t else 'sched', kind, detail))

    def log_digest(self):
        h = hashlib.sha1()
        for e in self.log:
            h.update(repr(e).encode())
        return h.hexdigest()

    # ----------------------------------------------------------------- clock
    def set_now(self, t):
        if t > self.now:
            self.now = t
            if self.on_clock:
                self.on_clock(t)

    def vtime(self):
        return (self.now - EPOCH).total_seconds()

    def add_timer(self, delay, label, cb):
        at = self.now + datetime.timedelta(seconds=max(0.0, delay))
        entry = [at, self.next_seq(), label, cb]
        heapq.heappush(self.timers, entry)
        return entry

    def cancel_timer(self, entry):
        entry[3] = None

    # ----------------------------------------------------------------- tasks
    def spawn(self, base_label, fn, node=None, kind='thr', daemon=False,
              entity=''):
        label = self.uniq(base_label)
        parent = self.current_task
        if node is None:
            node = parent.node if parent is not None else self.default_node
        if self.default_daemon is not None:
            daemon = self.default_daemon
        task = SimTask(self, label, kind, node, fn, daemon, entity)
        self.tasks.append(task)
        self.count('spawn:' + kind)
        return task

    def _start_thread(self, task):
        def body():
            self.tl.task = task
            task.sem.acquire()
            try:
                if self.aborting:
                    raise SimAbort()
                if task.killed:
                    raise SimKilled()
                task.result = task.fn()
            except SimKilled:
                pass
            except SimAbort:
                pass
            except BaseException as e:  # noqa
                task.exc = e
                self.task_errors.append((task.label, e))
            finally:
                task.state = 'done'
                for j in task.joiners:
                    if j.state == 'blocked' and j.blocked_on is task:
                        j.state = 'runnable'
                        j.blocked_on = None
                task.joiners = []
                self._sched_sem.release()

        th = threading.Thread(target=body, name='sim-' + task.label)
        th.daemon = True
        task.thread = th
        task.started = True
        th.start()

    def me(self):
        return getattr(self.tl, 'task', None)

    # yield points ---------------------------------------------------------
    def _handover(self, task):
        """Called on a task thread: give the baton back and wait for it."""
        self._sched_sem.release()
        task.sem.acquire()
        if self.aborting:
            raise SimAbort()
        if task.killed:
            raise SimKilled()

    def yield_point(self, kind, detail='', force=False):
        task = self.me()
        if task is None or self is not _current:
            return
        if task.killed:
            raise SimKilled()
        self.count('yield:' + kind)
        if not force and self.preempt < 1.0:
            # Seeded decision whether this optional yield is taken.  Drawn by
            # the task thread, but only one thread runs at a time so the
            # stream stays deterministic.
            if self.replay is None:
                take = self.rng.random() < self.preempt
                self.schedule.append([1 if take else 0, '?y'])
            else:
                take = self._replay_next('?y') == 1
            if not take:
                return
        self.log.append((self.step, task.label, 'y:' + kind, detail))
        task.state = 'runnable'
        self._handover(task)

    def block(self, on, kind='block', detail=''):
        task = self.me()
        if task.killed:
            raise SimKilled()
        self.log.append((self.step, task.label, 'b:' + kind, detail))
        task.state = 'blocked'
        task.blocked_on = on
        self._handover(task)

    def unblock(self, task):
        if task.state in ('blocked', 'sleeping'):
            task.state = 'runnable'
            task.blocked_on = None
            task.wake_at = None

    def sleep(self, seconds):
        task = self.me()
        if task is None or self is not _current:
            return
        if task.killed:
            raise SimKilled()
        self.count('yield:sleep')
        self.log.append((self.step, task.label, 'sleep', '%.3f' % seconds))
        task.state = 'sleeping'
        task.wake_at = self.now + datetime.timedelta(seconds=max(seconds, 0))
        task.blocked_on = None
        self._handover(task)

    def wait_on(self, obj, timeout=None, kind='wait'):
        """Block on obj until unblock() or (optionally) timeout. Returns True
        when woken by unblock, False on timeout."""
        task = self.me()
        if task.killed:
            raise SimKilled()
        self.log.append((self.step, task.label, 'w:' + kind,
                         '' if timeout is None else '%.3f' % timeout))
        task.state = 'blocked'
        task.blocked_on = obj
        task.wake_at = (None if timeout is None else
                        self.now + datetime.timedelta(seconds=max(timeout, 0)))
        self._handover(task)
        r = getattr(task, 'stack_tag', None)
        task.stack_tag = None
        return r != 'timeout'

    # -------------------------------------------------------------- choosing
    def _replay_next(self, label):
        if self.replay_pos >= len(self.replay):
            # past the recorded schedule: default choice
            self.schedule.append([0, label])
            return 0
        idx, lab = self.replay[self.replay_pos]
        self.replay_pos += 1
        self.schedule.append([idx, lab])
        return idx

    def choose(self, choices):
        """Pick one of the (label-sorted) choices."""
        if len(choices) == 1 and self.replay is None:
            self.schedule.append([0, choices[0].label])
            return choices[0]
        if self.replay is None:
            idx = self.rng.randrange(len(choices))
            self.schedule.append([idx, choices[idx].label])
            return choices[idx]
        if self.replay_pos >= len(self.replay):
            self.schedule.append([0, choices[0].label])
            return choices[0]
        idx, lab = self.replay[self.replay_pos]
        self.replay_pos += 1
        # Prefer label match (robust under minimisation), else index.
        for i, c in enumerate(choices):
            if c.label == lab:
                self.schedule.append([i, c.label])
                return c
        if lab != '?' and getattr(self, 'strict_replay', False):
            raise ReplayDiverged('step %d: %r not in %r' % (
                self.step, lab, [c.label for c in choices]))
        idx = idx % len(choices)
        self.schedule.append([idx, choices[idx].label])
        return choices[idx]

    def draw(self, n, label='?d'):
        """Seeded integer in [0, n) recorded in the schedule (for faults,
        latencies ...)."""
        if n <= 1:
            return 0
        if self.replay is None:
            v = self.rng.randrange(n)
            self.schedule.append([v, label])
            return v
        v = self._replay_next(label)
        return v % n

    # ------------------------------------------------------------------- run
    def _runnable(self):
        res = []
        for t in self.tasks:
            if t.state != 'runnable':
                continue
            if t.node is not None:
                until = self.frozen_nodes.get(t.node)
                if until is not None:
                    if until > self.now:
                        continue
                    del self.frozen_nodes[t.node]
            res.append(t)
        return res

    def _wake_due(self):
        for t in self.tasks:
            if t.state in ('sleeping', 'blocked') and t.wake_at is not None \
                    and t.wake_at <= self.now:
                if t.state == 'blocked':
                    t.stack_tag = 'timeout'
                t.state = 'runnable'
                t.wake_at = None
                t.blocked_on = None
        while self.timers and self.timers[0][0] <= self.now:
            at, seq, label, cb = heapq.heappop(self.timers)
            if cb is not None:
                self.count('timer_fired')
                cb()

    def _next_time(self):
        nxt = None
        for t in self.tasks:
            if t.state in ('sleeping', 'blocked') and t.wake_at is not None:
                if nxt is None or t.wake_at < nxt:
                    nxt = t.wake_at
        while self.timers and self.timers[0][3] is None:
            heapq.heappop(self.timers)
        if self.timers:
            if nxt is None or self.timers[0][0] < nxt:
                nxt = self.timers[0][0]
        for until in self.frozen_nodes.values():
            if until > self.now and (nxt is None or until < nxt):
                nxt = until
        for src in self.time_sources:
            t = src()
            if t is not None and t > self.now and (nxt is None or t < nxt):
                nxt = t
        return nxt

    def run_task(self, task):
        self.current_task = task
        if self.on_switch:
            self.on_switch(task)
        if not task.started:
            self._start_thread(task)
        task.sem.release()
        self._sched_sem.acquire()
        self.current_task = None

    def run(self, until=None):
        """Run until `until(sim)` is true (checked when idle) or nothing is
        left to do.  Returns 'done' | 'quiescent'."""
        global _current
        _current = self
        while True:
            if self.step >= self.max_steps:
                raise StepLimit('step cap %d' % self.max_steps)
            self._wake_due()
            runnable = self._runnable()
            choices = [Choice(t.label, 'task', t) for t in runnable]
            for src in self.choice_sources:
                choices.extend(src(self))
            if not choices:
                # idle: let hooks inject work, else advance the clock
                did = False
                for h in self.idle_hooks:
                    if h(self):
                        did = True
                        break
                if did:
                    continue
                if until is not None and until(self):
                    return 'done'
                # until() may have injected a fault or an operator command
                # (clock jump, end of a stall ...): look again before the
                # clock is moved to the next timer
                self._wake_due()
                if self._runnable():
                    continue
                nxt = self._next_time()
                if nxt is None:
                    live = [t for t in self.tasks
                            if t.state == 'blocked' and not t.daemon]
                    if live:
                        raise Deadlock(', '.join(
                            '%s on %s' % (t.label, t.blocked_on)
                            for t in live))
                    return 'quiescent'
                if self.vtime() > self.max_vtime:
                    raise StepLimit('virtual time cap')
                self.set_now(nxt)
                self.log.append((self.step, 'sched', 'clock',
                                 '%.3f' % self.vtime()))
                continue
            choices.sort(key=lambda c: c.label)
            if len(choices) > 1:
                self.concurrent_steps += 1
            c = self.choose(choices)
            self.step += 1
            self.sig.update(('%s|%d;' % (c.label, len(choices))).encode())
            self.log.append((self.step, 'sched', 'pick', c.label))
            if c.kind == 'task':
                self.run_task(c.obj)
            else:
                c.obj()
            for m in self.monitors:
                m(self)

    # -------------------------------------------------------------- teardown
    def kill_node(self, node):
        for t in self.tasks:
            if t.node == node and t.state != 'done':
                t.killed = True
                if t.state in ('blocked', 'sleeping'):
                    t.state = 'runnable'
                    t.wake_at = None
                    t.blocked_on = None
        # let them unwind right away, deterministically (label order)
        for t in sorted([t for t in self.tasks
                         if t.node == node and t.state != 'done'],
                        key=lambda t: t.label):
            if t.started:
                self.run_task(t)
            else:
                t.state = 'done'

    def abort(self):
        """Unwind every remaining task thread."""
        global _current
        self.aborting = True
        for t in list(self.tasks):
            if t.state != 'done':
                if t.started:
                    t.state = 'runnable'
                    self.current_task = t
                    t.sem.release()
                    self._sched_sem.acquire()
                else:
                    t.state = 'done'
        for t in self.tasks:
            if t.thread is not None:
                t.thread.join(5)
        self.current_task = None
        if _current is self:
            _current = None
