"""Operator commands through the real REST controllers (pecan test app).

The WSGI call is synchronous on the calling simulator task, so the
controller's own transactions and its RPC calls are ordinary yield points.
"""

import json
import threading

from mistralsim import world

_APP = None
_TL = threading.local()


def get_app():
    global _APP
    if _APP is not None:
        return _APP
    m = world.boot()
    import pecan
    import pecan.testing
    from mistral.api import app as pecan_app
    from mistral import context as mctx
    m.CONF.set_override('enabled', False, group='cron_trigger')
    m.CONF.set_override('auth_enable', False, group='pecan')
    if m.rpc_base._TRANSPORT is None:
        m.rpc_base._TRANSPORT = object()
    orig = mctx.MistralContext.from_environ

    def from_environ(cls, headers, env):
        c = getattr(_TL, 'ctx', None)
        if c is not None:
            return c
        return orig.__func__(cls, headers, env)

    mctx.MistralContext.from_environ = classmethod(from_environ)
    _APP = pecan.testing.load_test_app(dict(pecan_app.get_pecan_config()))
    return _APP


def call(method, path, body=None, ctx=None):
    """Returns (status_int, json or text)."""
    app = get_app()
    _TL.ctx = ctx
    try:
        fn = getattr(app, method.lower() + ('_json' if body is not None
                                            else ''))
        kw = {'expect_errors': True}
        if body is not None:
            resp = fn(path, body, **kw)
        else:
            resp = fn(path, **kw)
        try:
            data = resp.json
        except Exception:
            data = resp.text
        return resp.status_int, data
    finally:
        _TL.ctx = None
