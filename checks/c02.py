"""C02 - the result of a run does not depend on event order, timing or
engine caches: K-way differential over schedules / configurations of the
same program, input and outcome assignment."""

import copy
import hashlib
import json
import random

from checks import progcase
from mistralsim import observe
from mistralsim import runner

PLAN = {
    'quick': {'runs': 1200, 'budget': 75},
    'thorough': {'runs': 60000, 'budget': 1100},
}
K = {'quick': 4, 'thorough': 8}
RULE = ('Each evaluation = one generated program (schedule-independent by '
        'the reference analysis) executed under K different schedules / '
        'network profiles / latencies / pre-emption probabilities / row '
        'orders / id streams / cache-eviction fault lists / 1-2 engines; ')
ASSUMPTIONS = [
    'programs whose reference run is marked timing dependent (conflicting '
    'publishes, early termination concurrent with other branches, open '
    'partial joins) are not compared (the property is conditional on them)',
]
FEATS = progcase.CORE + ('with_items', 'concurrency', 'retry', 'subwf')


def make_case(seed, tier):
    rng = random.Random(seed)
    for attempt in range(30):
        case, rng2 = progcase.program_case(
            seed * 31 + attempt, FEATS, max_tasks=rng.choice([3, 4, 5, 6]),
            p=rng.choice([0.3, 0.5, 0.6]), p_err_choices=(0.0, 0.2, 0.3))
        rr, _ = progcase.reference(case)
        if rr.exact and not rr.racy_tasks and rr.state != 'NOT_CREATED':
            break
    case['seed'] = seed
    progcase.avoid_known(case, rng, p_keep=0.05)
    k = K.get(tier, 4)
    variants = []
    for i in range(k):
        c = copy.deepcopy(case['config'])
        v = {'config': c, 'seed': seed * 1000 + i, 'faults': []}
        tmp = {'config': c}
        progcase.swarm_config(rng, tmp)
        if 'via_rpc' not in progcase.case_tags(case):
            pass
        c['subwf_via_rpc'] = case['config'].get('subwf_via_rpc', False)
        if rng.random() < 0.5:
            v['faults'] = [{'at_step': rng.randint(3, 150), 'kind': 'evict'}
                           for _ in range(rng.randint(1, 4))]
        if rng.random() < 0.4:
            v['latency'] = rng.choice([0.5, 2.0, 7.0])
        if i > 0 and rng.random() < 0.3 and \
                not case['prog'].get('workbook'):
            # the definition of the root workflow is updated during the
            # run and the caches are dropped afterwards: the execution
            # goes on with the specification it was started with
            at = rng.randint(8, 60)
            v['faults'] = v['faults'] + [
                {'at_step': at, 'kind': 'redefine'},
                {'at_step': at + rng.randint(1, 30), 'kind': 'evict'}]
        variants.append(v)
    case['variants'] = variants
    return case


def execute(case):
    scheds = None
    if isinstance(case.get('schedule'), dict):
        scheds = case['schedule']['multi']
    first = None
    outs = []
    digests = []
    multi = []
    for i, v in enumerate(case['variants']):
        c = dict((k, val) for k, val in case.items() if k != 'variants')
        c['config'] = v['config']
        c['seed'] = v['seed']
        c['faults'] = v.get('faults') or []
        c['schedule'] = scheds[i] if scheds else None
        r = Runner2(c, v.get('latency')).run()
        outs.append({'status': r.status, 'reason': r.reason,
                     'canon': r.canon, 'steps': r.sim.step if r.sim else 0,
                     'foreign': [(k, w, repr(e)[:200])
                                 for k, w, e, tb in r.foreign]})
        multi.append([list(x) for x in r.sim.schedule] if r.sim else [])
        digests.append(r.sim.log_digest() if r.sim else '')
        if first is None:
            first = r
        else:
            for k2, n in r.sim.stats.items():
                first.sim.stats[k2] = first.sim.stats.get(k2, 0) + n
            first.sim.concurrent_steps += r.sim.concurrent_steps
            first.sim.sig.update(r.sim.sig.digest())
        if r.status != 'ok' and first.status == 'ok':
            first.status = r.status
            first.reason = r.reason
    first.extra['variants'] = outs
    first.extra['multi_schedule'] = multi
    first.extra['multi_digest'] = hashlib.sha1(
        '|'.join(digests).encode()).hexdigest()
    return first


class Runner2(runner.Runner):
    def __init__(self, case, latency=None):
        super(Runner2, self).__init__(case)
        self.latency = latency

    def setup(self):
        super(Runner2, self).setup()
        if self.latency:
            sim = self.sim
            lat = self.latency

            def latency(msg):
                # a third of the messages are delayed by a drawn amount
                if sim.draw(3, '?lat') == 0:
                    return lat * (1 + sim.draw(4, '?lat2'))
                return 0.0

            self.world.net.latency = latency


def mask(refv, engv):
    from mistralsim import ref
    if refv == ref.RACY:
        return ref.RACY
    if isinstance(refv, dict) and isinstance(engv, dict):
        return dict((k, mask(refv[k], v) if k in refv else v)
                    for k, v in engv.items())
    if isinstance(refv, list) and isinstance(engv, list) and \
            len(refv) == len(engv):
        return [mask(a, b) for a, b in zip(refv, engv)]
    return engv


def masked(canon, rrec):
    c = copy.deepcopy(canon)
    for p, w in c['wf'].items():
        r = rrec['wf'].get(p)
        if r and isinstance(r.get('output'), dict) and \
                isinstance(w.get('output'), dict):
            w['output'] = mask(r['output'], w['output'])
    for lab, t in c['tasks'].items():
        r = rrec['tasks'].get(lab)
        if not r:
            continue
        t['published'] = mask(r.get('published') or {},
                              t.get('published') or {})
        rres = r.get('result')
        if not r.get('with_items'):
            rres = [rres]
        t['result'] = mask(rres, t.get('result'))
    return c


def evaluate(case, res):
    out = []
    vs = res.extra['variants']
    rr, rrec = progcase.reference(case)
    res.extra['ref_exact'] = rr.exact and not rr.racy_tasks
    if not rr.exact or rr.racy_tasks or rr.state == 'NOT_CREATED':
        # the property is conditional on a schedule-independent program
        return out
    base = None
    for i, v in enumerate(vs):
        if v['status'] != 'ok':
            continue
        v = dict(v, canon=masked(v['canon'], rrec))
        cj = observe.canon_json(v['canon'])
        if base is None:
            base = (i, cj, v['canon'])
            continue
        if cj != base[1]:
            d = first_diff(base[2], v['canon'])
            out.append(('C02.schedule_dependent_result',
                        'variant %d and variant %d of the same program, '
                        'input and action results differ: %s' % (
                            base[0], i, d),
                        progcase.tag_signature(case)))
            break
    return out


def first_diff(a, b, path=''):
    if type(a) != type(b):
        return '%s: %r != %r' % (path, a, b)
    if isinstance(a, dict):
        for k in sorted(set(a) | set(b)):
            if k not in a:
                return '%s/%s only in second (%r)' % (path, k, b[k])
            if k not in b:
                return '%s/%s only in first (%r)' % (path, k, a[k])
            d = first_diff(a[k], b[k], '%s/%s' % (path, k))
            if d:
                return d
        return ''
    if isinstance(a, list):
        if len(a) != len(b):
            return '%s: %r != %r' % (path, a, b)
        for i, (x, y) in enumerate(zip(a, b)):
            d = first_diff(x, y, '%s[%d]' % (path, i))
            if d:
                return d
        return ''
    return '' if a == b else '%s: %r != %r' % (path, a, b)


def nontrivial(case, res):
    return res.sim.concurrent_steps >= 4 and \
        len(res.snap['task']) >= 2 and bool(res.extra.get('ref_exact'))


def probes(case, res):
    st = res.sim.stats
    return {'evictions': st.get('fault:cache_evict', 0),
            'redefinitions': st.get('fault:redefine', 0),
            'variants_ok': sum(1 for v in res.extra['variants']
                               if v['status'] == 'ok'),
            'row_order_applied': st.get('row_order_applied', 0)}


def shrink_candidates(case):
    # fewer variants first, then the program
    vs = case['variants']
    if len(vs) > 2:
        for i in range(len(vs)):
            c = dict(case)
            c['variants'] = vs[:i] + vs[i + 1:]
            c['schedule'] = None
            yield c
    for c in progcase.shrink_candidates(case):
        if 'config' in c and c['config'] is not case['config']:
            continue
        yield c
