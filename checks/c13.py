"""C13 - scheduled jobs run once, not early, survive crashes, and only if
committed (dedicated scheduler harness)."""

import datetime
import random

from checks import progcase
from mistralsim import core
from mistralsim import observe
from mistralsim import runner
from mistralsim import world

PLAN = {
    'quick': {'runs': 6000, 'budget': 60},
    'thorough': {'runs': 300000, 'budget': 900},
}
RULE = ('Dedicated harness: 1-3 scheduler instances (DefaultScheduler with '
        'its real dispatcher / store-poll / pool methods, or LegacyScheduler '
        'with its real loop) on one database, 1-3 jobs scheduled by client '
        'tasks inside transactions that commit or roll back, with varied '
        'delays, keys, target durations and scheduler options; faults: '
        'crash / restart of an instance at a seeded step, stall longer than '
        'the capture timeout, clock jump; ')
STUBS = ['scheduled target = recording function mistralsim.sched_target.'
         'record (may take virtual time)']
ASSUMPTIONS = ['crash recovery is only demanded from DefaultScheduler; '
               'LegacyScheduler is checked for exactly-once, not-early and '
               'commit/rollback (it does not implement recapture)']


def make_case(seed, tier):
    rng = random.Random(seed)
    case = runner.default_case()
    case['seed'] = seed
    c = case['config']
    c['scheduler_type'] = rng.choice(['default', 'default', 'legacy'])
    c['engines'] = rng.choice([1, 2, 2, 3])
    c['executors'] = 0
    c['executor_type'] = 'remote'
    c['preempt'] = rng.choice([0.3, 1.0, 1.0])
    c['integrity_delay'] = -1
    opts = {
        'scheduler.fixed_delay': rng.choice([1, 1, 2, 5]),
        'scheduler.random_delay': rng.choice([0, 0, 1]),
        'scheduler.batch_size': rng.choice([1, 2, 10]),
        'scheduler.pickup_job_after': rng.choice([5, 20, 60]),
        'scheduler.captured_job_timeout': rng.choice([5, 10, 30]),
        'scheduler.in_memory_workers': rng.choice([1, 2, 8]),
    }
    c['options'] = opts
    jobs = []
    for i in range(rng.randint(1, 3)):
        jobs.append({'tag': 'j%d' % i,
                     'delay': rng.choice([0, 0, 1, 3, 10, 45]),
                     'key': rng.choice([None, 'k0', 'k0', 'k1']),
                     'commit': rng.random() < 0.75,
                     'node': rng.randrange(c['engines']),
                     'at': rng.choice([0, 0, 0.5, 2, 7]),
                     'dur': rng.choice([0, 0, 0, 1,
                                        opts['scheduler.captured_job_timeout']
                                        + 3]),
                     'hold': rng.choice([0, 0, 0, 2])})
    case['jobs'] = jobs
    faults = []
    if c['scheduler_type'] == 'default' and rng.random() < 0.5:
        k = rng.randint(3, 80)
        node = 'engine%d' % rng.randrange(c['engines'])
        f = {'at_step': k, 'kind': 'crash', 'node': node}
        if rng.random() < 0.6 or c['engines'] == 1:
            # a fresh instance comes up some (virtual) seconds later
            f['restart_after'] = rng.choice([0, 1, 5, 20, 70])
        if rng.random() < 0.4:
            # biased: the instance dies while it is executing this job
            f['kind'] = 'crash_in_job'
            f['tag'] = 'j%d' % rng.randrange(len(jobs))
            f['nth'] = rng.choice([0, 0, 0, 1])
            del f['at_step'], f['node']
        faults.append(f)
    if rng.random() < 0.2:
        faults.append({'at_step': rng.randint(3, 80), 'kind': 'stall',
                       'node': 'engine%d' % rng.randrange(c['engines']),
                       'seconds': rng.choice([3, 40])})
    if rng.random() < 0.15:
        faults.append({'at_step': rng.randint(3, 80), 'kind': 'clock_jump',
                       'seconds': rng.choice([2, 30, 100])})
    case['faults'] = faults
    case['queries'] = [{'at': rng.choice([0.2, 1, 4, 12]),
                        'key': rng.choice(['k0', 'k1']),
                        'node': rng.randrange(c['engines'])}
                       for _ in range(rng.randint(0, 3))]
    case['horizon'] = 45 + 60 + opts['scheduler.pickup_job_after'] + \
        3 * opts['scheduler.captured_job_timeout'] + 110
    case['max_steps'] = 20000
    # overlap windows between the scheduler instances (capture races); the
    # runner switches them off in runs with crash faults
    c['overlap'] = rng.choice([0.0, 0.5, 1.0])
    return case


class Rollback(Exception):
    pass


class Runner13(runner.Runner):
    def setup(self):
        m = world.M
        sim = self.sim
        w = self.world
        w.invocations = []
        w.invoke_hook = self._on_invoke
        self.crash_now = []
        self.sched_log = []     # (tag, job id, execute_at, node)
        self.captures = []      # (job id, captured_at, node, won, step)
        self.queries = []
        case = self.case
        self._wrap()
        for j in case['jobs']:
            self._spawn_client(j)
        for q in case['queries']:
            self._spawn_query(q)
        self.pending_ops = []
        self.pending_faults = sorted(
            [dict(f, _i=i) for i, f in enumerate(case.get('faults') or [])
             if f['kind'] != 'crash_in_job'],
            key=lambda o: (o.get('at_step', 0), o['_i']))
        self.in_job_faults = [dict(f) for f in case.get('faults') or []
                              if f['kind'] == 'crash_in_job']
        if self.pending_faults or self.in_job_faults:
            sim.monitors.append(self._inject_due)
        self.end_at = sim.now + datetime.timedelta(seconds=case['horizon'])
        # a sentinel timer so that the clock is driven to the horizon
        sim.add_timer(case['horizon'], 'horizon', lambda: None)

    def _wrap(self):
        m = world.M
        sa_api = m.sa_api
        me = self
        sim = self.sim
        self._orig = {}
        for name in ('create_scheduled_job', 'create_delayed_call',
                     'update_scheduled_job', 'update_delayed_call'):
            self._orig[name] = getattr(sa_api, name)

        def create_scheduled_job(values, **kw):
            r = me._orig['create_scheduled_job'](values, **kw)
            me.sched_log.append({
                'tag': (values.get('func_args') or {}).get('tag'),
                'id': r.id, 'execute_at': values['execute_at'],
                'key': values.get('key'), 'step': sim.step,
                'session': id(m.db_base._get_thread_local_session())})
            return r

        def create_delayed_call(values, **kw):
            r = me._orig['create_delayed_call'](values, **kw)
            me.sched_log.append({
                'tag': (values.get('method_arguments') or {}).get('tag'),
                'id': r.id, 'execute_at': values['execution_time'],
                'key': values.get('key'), 'step': sim.step,
                'session': id(m.db_base._get_thread_local_session())})
            return r

        def update_scheduled_job(id, values, query_filter=None, **kw):
            r = me._orig['update_scheduled_job'](id, values, query_filter,
                                                 **kw)
            if 'captured_at' in values:
                t = sim.me()
                me.captures.append({
                    'id': id, 'captured_at': values['captured_at'],
                    'prev': (query_filter or {}).get('captured_at'),
                    'node': t.node.name if t and t.node else None,
                    'won': r[1] == 1, 'step': sim.step, 'now': sim.now})
                sim.count('capture_won' if r[1] == 1 else 'capture_lost')
            return r

        def update_delayed_call(id, values, query_filter=None, **kw):
            r = me._orig['update_delayed_call'](id, values, query_filter,
                                                **kw)
            if 'processing' in values:
                t = sim.me()
                me.captures.append({
                    'id': id, 'captured_at': sim.now, 'prev': None,
                    'node': t.node.name if t and t.node else None,
                    'won': r[1] == 1, 'step': sim.step, 'now': sim.now})
            return r

        sa_api.create_scheduled_job = create_scheduled_job
        sa_api.create_delayed_call = create_delayed_call
        sa_api.update_scheduled_job = update_scheduled_job
        sa_api.update_delayed_call = update_delayed_call

    def unwrap(self):
        m = world.M
        for name, fn in getattr(self, '_orig', {}).items():
            setattr(m.sa_api, name, fn)

    def _spawn_client(self, j):
        m = world.M
        sim = self.sim
        node = self.world.engine_nodes[j['node'] %
                                       len(self.world.engine_nodes)]
        me = self

        def client():
            if j['at']:
                sim.sleep(j['at'])
            m.auth_ctx.set_ctx(world.user_ctx())
            try:
                try:
                    with m.db_api.transaction():
                        job = m.sched_base.SchedulerJob(
                            run_after=j['delay'],
                            func_name='mistralsim.sched_target.record',
                            func_args={'tag': j['tag'], 'dur': j['dur']},
                            key=j['key'])
                        m.sched_base.get_system_scheduler().schedule(job)
                        if j['hold']:
                            # keep the transaction open for a while (the
                            # in-memory copy is already queued)
                            sim.sleep(j['hold'])
                        if not j['commit']:
                            raise Rollback()
                    j['_committed_at'] = sim.now
                except Rollback:
                    j['_rolled_back'] = True
                    j['_rolled_back_at'] = sim.now
            finally:
                m.auth_ctx.set_ctx(None)

        sim.spawn('client:%s' % j['tag'], client, node=node, kind='client')

    def _spawn_query(self, q):
        m = world.M
        sim = self.sim
        node = self.world.engine_nodes[q['node'] %
                                       len(self.world.engine_nodes)]
        me = self

        def client():
            sim.sleep(q['at'])
            if not node.alive:
                return
            from sqlalchemy import text
            with m.db_api.transaction(read_only=True):
                sched = m.sched_base.get_system_scheduler()
                ans = sched.has_scheduled_jobs(key=q['key'],
                                               processing=False)
                ses = m.db_base._get_thread_local_session()
                if me.cfg['scheduler_type'] == 'default':
                    rows = ses.execute(text(
                        "SELECT id, captured_at FROM scheduled_jobs_v2 "
                        "WHERE key = :k"), {'k': q['key']}).fetchall()
                    pend = [r for r in rows if r[1] is None]
                    inmem = [(jid, jb.captured_at) for jid, jb in
                             sched.in_memory_jobs.items()
                             if jb.key == q['key']]
                else:
                    rows = ses.execute(text(
                        "SELECT id, processing FROM delayed_calls_v2 "
                        "WHERE key = :k"), {'k': q['key']}).fetchall()
                    pend = [r for r in rows if not r[1]]
                    inmem = []
            me.queries.append({'key': q['key'], 'answer': ans,
                               'rows': len(rows), 'pending': len(pend),
                               'inmem': inmem, 'step': sim.step,
                               'now': sim.now, 'node': node.name})

        sim.spawn('client:query', client, node=node, kind='client')

    def _on_invoke(self, rec):
        # runs inside the task that executes the job; the crash itself is
        # carried out by the monitor at the job's next yield point
        n = len([r for r in self.world.invocations
                 if r['tag'] == rec['tag']]) - 1
        for f in self.in_job_faults:
            if f['tag'] == rec['tag'] and f.get('nth', 0) == n and \
                    not f.get('_fired') and rec['node']:
                f['_fired'] = True
                self.crash_now.append(dict(f, kind='crash',
                                           node=rec['node']))

    def _inject_due(self, sim):
        while self.crash_now:
            f = self.crash_now.pop(0)
            sim.count('fault:crash_in_job')
            self.inject_fault(f)
        runner.Runner._inject_due(self, sim)

    def inject_fault(self, f):
        from mistralsim import faults as fmod
        fmod.inject(self, f)
        if f['kind'] == 'crash' and f.get('restart_after') is not None:
            sim = self.sim
            node = f['node']

            def restart():
                fmod.inject(self, {'kind': 'restart', 'node': node})

            sim.add_timer(f['restart_after'], 'restart:' + node, restart)

    def _until(self, sim):
        if self.pending_faults:
            # the step counter no longer advances (everything is asleep or
            # dead): inject what is left now
            for o in self.pending_faults[:1]:
                o['at_step'] = min(o.get('at_step', 0), sim.step)
            self._inject_due(sim)
            return False
        if sim.now >= self.end_at:
            self.res.quiescent_reason = 'horizon'
            return True
        return False

    def _collect(self):
        self.unwrap()
        res = self.res
        res.snap = observe.snapshot()
        res.labels = observe.Labels(res.snap, {})
        res.canon = {}
        w = self.world
        res.extra['invocations'] = list(w.invocations)
        res.extra['sched_log'] = self.sched_log
        res.extra['captures'] = self.captures
        res.extra['queries'] = self.queries
        allx = []
        for label, e in self.sim.task_errors:
            allx.append(('task', label, e, None))
        for step, tlabel, logger, msg, e in w.swallowed:
            allx.append(('logged', '%s %s: %s' % (tlabel, logger, msg[:80]),
                         e, None))
        res.all_exceptions = allx
        res.foreign = [x for x in allx if not runner._is_mistral_exc(x[2])]
        res.world_info = {}


def execute(case):
    r = Runner13(case, max_steps=case.get('max_steps', 20000))
    try:
        return r.run()
    finally:
        r.unwrap()


def _sec(dt):
    return dt.replace(microsecond=0)


def evaluate(case, res):
    out = []
    cfg = case['config']
    opts = cfg['options']
    default = cfg['scheduler_type'] == 'default'
    timeout = opts['scheduler.captured_job_timeout']
    faults = case.get('faults') or []
    crashed = any(f['kind'] in ('crash', 'crash_in_job') for f in faults)
    stalled = any(f['kind'] == 'stall' for f in faults)
    jumped = any(f['kind'] == 'clock_jump' for f in faults)
    sig = ' '.join(sorted(set(
        ['sched_' + cfg['scheduler_type'], 'inst%d' % cfg['engines']] +
        ['fault_' + f['kind'] for f in faults])))
    inv = {}
    for r in res.extra['invocations']:
        inv.setdefault(r['tag'], []).append(r)
    log = {}
    for s in res.extra['sched_log']:
        log[s['tag']] = s
    alive_at_end = (not crashed or any(
        f.get('restart_after') is not None for f in faults) or
        cfg['engines'] > 1)
    for j in case['jobs']:
        tag = j['tag']
        runs = inv.get(tag, [])
        s = log.get(tag)
        committed = '_committed_at' in j
        if not committed:
            if runs and j.get('_rolled_back'):
                out.append(('C13.rolled_back_ran',
                            'job %s was scheduled in a transaction that '
                            'rolled back but ran %d times' % (tag, len(runs)),
                            sig))
            continue
        if s is None:
            continue
        for r in runs:
            if _sec(r['at']) < _sec(s['execute_at']):
                out.append(('C13.early',
                            'job %s (execute_at %s) was invoked at %s' % (
                                tag, s['execute_at'], r['at']), sig))
        # the scheduling node may have died before the commit: then the job
        # is not committed after all (client task killed)
        if not [r for r in runs if r['done']]:
            # at least once = some invocation ran to its end: an instance
            # that dies half way through a job leaves it captured in the
            # store, and another instance takes it over after the timeout
            if alive_at_end and not (crashed and not default):
                out.append(('C13.never_ran',
                            'committed job %s (execute_at %s) was never '
                            'invoked to completion within %ds (%d '
                            'invocations cut short by a crash)' % (
                                tag, s['execute_at'], case['horizon'],
                                len(runs)), sig))
            if not runs:
                continue
        if len(runs) > 1:
            caps = sorted([c for c in res.extra['captures']
                           if c['id'] == s['id'] and c['won']],
                          key=lambda c: c['step'])
            legit = crashed or stalled or jumped or \
                j['dur'] >= timeout or not default
            if not legit:
                out.append(('C13.ran_twice',
                            'job %s was invoked %d times (%s) without '
                            'crash, stall or slow target' % (
                                tag, len(runs),
                                [(r['node'], str(r['at'])) for r in runs]),
                            sig))
            if not default:
                out.append(('C13.ran_twice',
                            'legacy scheduler invoked job %s %d times' % (
                                tag, len(runs)), sig))
            # recapture discipline
            for a, b in zip(caps, caps[1:]):
                gap = (b['captured_at'] - a['captured_at']).total_seconds()
                if gap < timeout and not jumped:
                    out.append((
                        'C13.recaptured_early',
                        'job %s captured at %s by %s and again at %s by %s '
                        '(capture timeout %ds)' % (
                            tag, a['captured_at'], a['node'],
                            b['captured_at'], b['node'], timeout), sig))
    # pending-by-key query
    for q in res.extra['queries']:
        if q['pending'] > 0 and not q['answer']:
            out.append(('C13.pending_query',
                        'has_scheduled_jobs(key=%s, processing=False) '
                        'answered False at %s on %s although %d committed '
                        'uncaptured jobs with that key exist' % (
                            q['key'], q['now'], q['node'], q['pending']),
                        sig))
        if q['rows'] == 0 and q['answer']:
            # in-memory copies of jobs whose scheduling transaction is
            # still open do not count (unconstrained); ghosts of rolled
            # back transactions do
            byid = dict((s_['id'], s_['tag'])
                        for s_ in res.extra['sched_log'])
            jobs = dict((j_['tag'], j_) for j_ in case['jobs'])
            open_tx = False
            for jid, cap in q['inmem']:
                j_ = jobs.get(byid.get(jid)) or {}
                rb = j_.get('_rolled_back_at')
                if rb is None or rb > q['now']:
                    open_tx = True
            if not open_tx:
                out.append((
                    'C13.pending_query',
                    'has_scheduled_jobs(key=%s, processing=False) answered '
                    'True at %s on %s although no job with that key exists'
                    '%s' % (q['key'], q['now'], q['node'],
                            ' (only in-memory copies of rolled back jobs: '
                            '%s)' % q['inmem'] if q['inmem'] else ''),
                    sig + (' ghost_in_memory' if q['inmem'] else '')))
    for kind, where, e, tb in res.foreign:
        out.append(('C13.never_ran',
                    'unexpected %s in %s: %s' % (type(e).__name__, where,
                                                 str(e)[:200]),
                    sig + ' ' + progcase.exc_signature(e)))
    return out


def nontrivial(case, res):
    return len(res.extra.get('invocations') or []) >= 1 and \
        res.sim.concurrent_steps >= 2


def probes(case, res):
    st = res.sim.stats
    inv = res.extra.get('invocations') or []
    tags = {}
    for r in inv:
        tags[r['tag']] = tags.get(r['tag'], 0) + 1
    return {
        'capture_won': st.get('capture_won', 0),
        'capture_lost': st.get('capture_lost', 0),
        'invocations': len(inv),
        'jobs_run_twice': sum(1 for v in tags.values() if v > 1),
        'rolled_back_jobs': sum(1 for j in case['jobs']
                                if j.get('_rolled_back')),
        'queries': len(res.extra.get('queries') or []),
        'store_poll_recapture': sum(
            1 for c in res.extra.get('captures') or []
            if c['won'] and c['prev'] is not None),
        'legacy': int(case['config']['scheduler_type'] == 'legacy'),
    }


def shrink_candidates(case):
    import copy
    for i in range(len(case['jobs'])):
        if len(case['jobs']) > 1:
            c = copy.deepcopy(case)
            del c['jobs'][i]
            yield c
    for i in range(len(case.get('queries') or [])):
        c = copy.deepcopy(case)
        del c['queries'][i]
        yield c
    if case['config']['engines'] > 1:
        c = copy.deepcopy(case)
        c['config']['engines'] -= 1
        yield c
