"""C05 - a task sees exactly the data published by the tasks that causally
precede it; evaluating expressions never modifies stored contexts."""

import json
import random

from checks import progcase
from checks import trace
from mistralsim import ref
from mistralsim import runner

PLAN = {
    'quick': {'runs': 4000, 'budget': 75},
    'thorough': {'runs': 150000, 'budget': 1100},
}
RULE = ('Generated fork/join programs with publish / publish-on-error / '
        'transition-level branch and global publish, re-publishing along a '
        'branch, scalar and nested values, YAQL and Jinja; completion orders '
        'via latencies, id streams and row-order modes; ')
FEATS = ('guards', 'joins', 'on_error', 'on_complete', 'errors', 'publish',
         'republish', 'nested_values', 'jinja', 'env', 'multi_inbound',
         'global_publish', 'async', 'output', 'subwf', 'task_defaults',
         'with_items')
FORCE = ('publish', 'joins')
ASSUMPTIONS = [
    'the causal graph is the one the engine itself stored (triggered_by); '
    'tasks with a partial join are excluded from the data oracle because '
    'their upstream set is timing dependent by definition',
]
SKIP_KEYS = ('__versions', '__task_execution', '__execution', 'openstack')


def gen_diamonds(rng):
    """Fork / join shapes in which a variable is (re-)published on some of
    the parallel branches and merely inherited on the others - once or in
    two levels (a join whose result is re-published and joined again with a
    branch that forked off before the first join)."""
    lang = rng.choice(['yaql', 'yaql', 'jinja'])
    nvars = rng.choice([1, 1, 2])
    dict_vars = set(v for v in range(nvars) if rng.random() < 0.5)
    counter = [0]

    def val(v):
        counter[0] += 1
        k = counter[0]
        if v in dict_vars:
            return ['dict', {'a': ['const', 'A%d' % k],
                             'b': ['dict', {'c': ['const', k]}]}]
        return ['const', 'S%d' % k]

    def pubs(p):
        d = {}
        for v in range(nvars):
            if rng.random() < p:
                d['v%d' % v] = val(v)
        return d

    def kind():
        return rng.choice(['sync', 'sync', 'async'])

    tasks = []
    t0 = {'name': 't0', 'body': {'kind': kind()}, 'publish': pubs(0.8)}
    nb = rng.choice([2, 2, 3])
    branches = []
    for b in range(nb):
        t = {'name': 'b%d' % b, 'body': {'kind': kind()},
             'on_success': [{'to': 'j1'}]}
        p = pubs(0.5 if b == 0 else 0.25)
        if p:
            t['publish'] = p
        branches.append(t)
    t0['on_success'] = [{'to': t['name']} for t in branches]
    j1 = {'name': 'j1', 'body': {'kind': kind()}, 'join': 'all'}
    tasks = [t0] + branches + [j1]
    if rng.random() < 0.5:
        # second level: a side branch that forked off t0 (it only inherits
        # what t0 published) meets the re-published result of j1
        side = {'name': 's0', 'body': {'kind': kind()},
                'on_success': [{'to': 'j2'}]}
        t0['on_success'].append({'to': 's0'})
        p1 = {'name': 'p1', 'body': {'kind': kind()},
              'publish': pubs(0.9), 'on_success': [{'to': 'j2'}]}
        j1['on_success'] = [{'to': 'p1'}]
        j2 = {'name': 'j2', 'body': {'kind': kind()}, 'join': 'all'}
        tasks += [side, p1, j2]
    if not any(t.get('publish') for t in tasks):
        t0['publish'] = {'v0': val(0)}
    wf = {'name': 'main', 'short': 'main', 'type': 'direct', 'lang': lang,
          'tasks': tasks, 'input': [{'x': 1}], 'path_input': False}
    if rng.random() < 0.5:
        wf['output'] = dict(('o%d' % v, ['var', 'v%d' % v])
                            for v in range(nvars))
    return {'workflows': [wf], 'workbook': None}


def make_case(seed, tier):
    rng = random.Random(seed)
    if rng.random() < 0.2:
        from mistralsim import gen
        prog = gen_diamonds(rng)
        case = runner.default_case()
        case['seed'] = seed
        case['prog'] = prog
        case['feats'] = ['diamond']
        case['defs'] = gen.render_program(prog)
        case['starts'] = [{'wf': 'main', 'input': {'x': 1}, 'params': {}}]
        case['outcome_seed'] = seed
        case['p_err'] = 0.0
        case['outcome_special'] = False
        progcase.swarm_config(rng, case)
        case['latency'] = rng.choice([0, 0, 1.0, 4.0])
        return case
    case, rng = progcase.program_case(
        seed, FEATS, max_tasks=rng.choice([4, 5, 6, 7]),
        p=rng.choice([0.4, 0.6]), rng=rng, force=FORCE,
        p_err_choices=(0.0, 0.15, 0.3))
    case['outcome_special'] = rng.random() < 0.3
    progcase.swarm_config(rng, case)
    progcase.avoid_known(case, rng)
    case['latency'] = rng.choice([0, 0, 1.0, 4.0])
    return case


def execute(case):
    from checks import c04
    return c04.Runner4(case).run()


def _ancestors(snap):
    parents = {}
    by_wf = {}
    for t in snap['task'].values():
        by_wf.setdefault(t['workflow_execution_id'], []).append(t)
    for t in snap['task'].values():
        if (t.get('spec') or {}).get('join') is not None:
            # data ancestors of a join are the completed tasks that routed
            # to it (for a failed join 'triggered_by' names the tasks that
            # made it fail, which is not a data dependency)
            parents[t['id']] = [
                x['id'] for x in by_wf[t['workflow_execution_id']]
                if x['id'] != t['id'] and t['name'] in
                [n[0] for n in (x['next_tasks'] or [])]]
            continue
        tb = (t['runtime_context'] or {}).get('triggered_by') or []
        parents[t['id']] = [x.get('task_id') for x in tb
                            if x.get('task_id') in snap['task']]
    anc = {}

    def get(i, depth=0):
        if i in anc:
            return anc[i]
        anc[i] = set()
        res = set()
        for p in parents.get(i, []):
            res.add(p)
            if depth < 60:
                res |= get(p, depth + 1)
        anc[i] = res
        return res

    for i in parents:
        get(i)
    return anc


def _partial(case, snap, t):
    spec = t.get('spec') or {}
    j = spec.get('join')
    return j is not None and j != 'all'


def data_oracle(case, res):
    out = []
    snap = res.snap
    lab = res.labels
    anc = _ancestors(snap)
    for t in snap['task'].values():
        if _partial(case, snap, t):
            continue
        if t['state'] in ('WAITING', 'IDLE'):
            continue
        if (t.get('spec') or {}).get('join') is not None and \
                t['state'] != 'SUCCESS':
            # a join that failed or never ran merged whatever had arrived
            continue
        ictx = t['in_context'] or {}
        pubs = {}
        for a in anc.get(t['id'], ()):
            ta = snap['task'][a]
            for v, val in (ta['published'] or {}).items():
                pubs.setdefault(v, {})[a] = val
        keys = set(k for k in ictx if k not in SKIP_KEYS) | set(pubs)
        for v in sorted(keys):
            cands = pubs.get(v, {})
            if not cands:
                out.append((
                    'C05.stale_value',
                    'task %s sees %s=%r but no causal ancestor published it'
                    % (lab.any(t['id']), v, ictx.get(v)), 'phantom'))
                continue
            maximal = [a for a in cands
                       if not any(a in anc.get(b, ()) for b in cands
                                  if b != a)]
            allowed = [cands[a] for a in maximal]
            if len(maximal) > 1:
                # conflicting publishes of concurrent branches: outside the
                # property
                continue
            if v not in ictx:
                out.append((
                    'C05.stale_value',
                    'task %s does not see %s although its ancestors %s '
                    'published it' % (lab.any(t['id']), v,
                                      sorted(lab.any(a) for a in maximal)),
                    'missing'))
                continue
            if ictx[v] not in allowed:
                stale = [lab.any(a) for a in cands if cands[a] == ictx[v]]
                out.append((
                    'C05.stale_value',
                    'task %s sees %s=%r; the latest publisher(s) on its '
                    'causal path are %s with %r%s' % (
                        lab.any(t['id']), v, ictx[v],
                        sorted(lab.any(a) for a in maximal), allowed,
                        ' (value of earlier publisher %s)' % stale
                        if stale else ''),
                    'stale' if stale else 'mixed'))
    # workflow output without an output clause = merged end-task contexts
    for w in snap['wf'].values():
        if w['state'] != 'SUCCESS':
            continue
        if (w.get('spec') or {}).get('output'):
            continue
        tasks = [t for t in snap['task'].values()
                 if t['workflow_execution_id'] == w['id']]
        if any(_partial(case, snap, t) for t in tasks):
            continue
        if any((t.get('spec') or {}).get('join') is not None and
               t['state'] != 'SUCCESS' for t in tasks):
            continue
        ids = set(t['id'] for t in tasks)
        pubs = {}
        for t in tasks:
            if t['state'] not in ('SUCCESS', 'ERROR'):
                continue
            for v, val in (t['published'] or {}).items():
                pubs.setdefault(v, {})[t['id']] = val
        outp = w['output'] or {}
        for v in sorted(set(pubs) | set(k for k in outp
                                        if k not in SKIP_KEYS)):
            cands = pubs.get(v, {})
            if not cands:
                out.append(('C05.stale_value',
                            'output of %s has %s=%r which no task published'
                            % (lab.any(w['id']), v, outp.get(v)),
                            'phantom-output'))
                continue
            maximal = [a for a in cands
                       if not any(a in anc.get(b, ()) for b in cands
                                  if b != a)]
            allowed = [cands[a] for a in maximal]
            if len(maximal) > 1:
                continue
            if v in outp and outp[v] not in allowed:
                out.append((
                    'C05.stale_value',
                    'output of %s has %s=%r; latest publishers %s have %r'
                    % (lab.any(w['id']), v, outp[v],
                       sorted(lab.any(a) for a in maximal), allowed),
                    'stale-output'))
    return out


def immutability(case, res):
    """in_context / published of a task change only in a commit that also
    changes that task's state (its completion, retry, rerun) or creates it."""
    out = []
    lab = res.labels
    rec = res.recorder
    for cno, step, actor, evs in rec.commits:
        state_changed = set()
        created = set()
        for e in evs:
            if e.table != trace.TASK:
                continue
            if e.op == 'insert':
                created.add(e.id)
            if 'state' in e.vals:
                state_changed.add(e.id)
        for e in evs:
            if e.table != trace.TASK or e.op != 'update':
                continue
            for col in ('in_context', 'published'):
                if col in e.vals and e.id not in state_changed and \
                        e.id not in created and \
                        e.vals[col] != e.old.get(col):
                    out.append((
                        'C05.context_mutated',
                        '%s of task %s changed in a commit of %s (step %d) '
                        'that is not a state change of that task: %r -> %r'
                        % (col, lab.any(e.id), actor, step,
                           e.old.get(col), e.vals[col]), col))
    return out


def evaluate(case, res):
    out = []
    reset = ' reset_by_late_route' if trace.had_late_route_reset(res) \
        else ''
    for inv, msg, sig in data_oracle(case, res) + immutability(case, res):
        out.append((inv, msg, progcase.tag_signature(case, sig + reset)))
    if not out:
        # additionally the reference interpreter, where it is exact
        rr, rrec = progcase.reference(case)
        res.extra['ref_exact'] = rr.exact and not rr.racy_tasks
        if rr.exact and not rr.racy_tasks and rr.state != 'NOT_CREATED':
            diffs = [d for d in ref.compare(rr, rrec, res.canon, 'data')
                     if ' published ' in d or ' output ' in d]
            if diffs:
                out.append(('C05.stale_value', '; '.join(diffs[:4]),
                            progcase.tag_signature(case, 'vs-ref')))
    return out


def nontrivial(case, res):
    n_pub = sum(1 for t in res.snap['task'].values() if t['published'])
    return res.sim.concurrent_steps >= 2 and n_pub >= 2


def probes(case, res):
    snap = res.snap
    return {
        'tasks_with_published': sum(1 for t in snap['task'].values()
                                    if t['published']),
        'joins_succeeded': sum(1 for t in snap['task'].values()
                               if t['unique_key'] and
                               t['state'] == 'SUCCESS'),
        'nested_published': sum(
            1 for t in snap['task'].values()
            if any(isinstance(v, dict)
                   for v in (t['published'] or {}).values())),
        'ref_exact': int(bool(res.extra.get('ref_exact'))),
    }


shrink_candidates = progcase.shrink_candidates
