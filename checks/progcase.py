"""Builds program cases (generated workflow + configuration swarm) shared by
the workflow-level properties."""

import json
import random
import traceback

from mistralsim import gen
from mistralsim import ref
from mistralsim import runner
from mistralsim import world

CORE = ('guards', 'joins', 'on_error', 'on_complete', 'publish', 'republish',
        'errors', 'output', 'commands', 'bad_expr', 'jinja', 'env', 'async',
        'std_actions', 'task_defaults', 'multi_inbound')


def swarm_config(rng, case, engines=(1, 1, 2), allow_local=True):
    c = case['config']
    c['scheduler_type'] = rng.choice(['legacy', 'default'])
    c['engines'] = rng.choice(engines)
    if allow_local and rng.random() < 0.3:
        c['executor_type'] = 'local'
    else:
        c['executor_type'] = 'remote'
        c['executors'] = rng.choice([1, 1, 2])
    c['subwf_via_rpc'] = rng.random() < 0.3
    c['integrity_delay'] = rng.choice([-1, 0, 20])
    c['row_order'] = rng.choice(['none', 'none', 'asc', 'desc'])
    c['id_order'] = rng.choice(['random', 'asc', 'desc'])
    c['preempt'] = rng.choice([0.0, 0.3, 1.0, 1.0])
    c['net'] = rng.choice(['uniform', 'uniform', 'fifo', 'lifo'])
    if rng.random() < 0.3:
        c['options'] = dict(c.get('options') or {})
        c['options']['scheduler.fixed_delay'] = rng.choice([1, 2, 5])
    # overlap windows: a transaction that has not written yet may be parked
    # before its first write while transactions of other nodes (the other
    # engine, the API process) commit (mistralsim.prims.TxLock)
    c['overlap'] = rng.choice([0.0, 0.0, 0.5, 1.0])
    return c


def program_case(seed, feats_allowed=CORE, max_tasks=6, p=0.5, rng=None,
                 p_err_choices=(0.0, 0.2, 0.4), force=()):
    rng = rng or random.Random(seed)
    feats = gen.pick_features(rng, feats_allowed, p) | set(force)
    prog = gen.gen_program(rng, feats, max_tasks=max_tasks)
    case = runner.default_case()
    case['seed'] = seed
    case['prog'] = prog
    case['feats'] = sorted(feats)
    case['defs'] = gen.render_program(prog)
    main = prog['workflows'][0]
    params = {}
    if main.get('env'):
        params['env'] = main['env']
    case['starts'] = [{'wf': main['name'],
                       'input': {'x': rng.choice([1, 2])},
                       'params': params}]
    case['outcome_seed'] = seed
    case['p_err'] = rng.choice(p_err_choices)
    return case, rng


def reference(case):
    prog = case['prog']
    main = prog['workflows'][0]
    fn = gen.default_outcome_fn(case['outcome_seed'], case.get('p_err', 0.25),
                                special=case.get('outcome_special', True))
    overrides = case.get('outcomes') or {}
    if overrides:
        base = fn

        def fn(tag, item, n, base=base):
            seq = overrides.get('%s/%s' % (tag, item))
            if seq is not None and n < len(seq):
                return tuple(seq[n])
            return base(tag, item, n)

    st = case['starts'][0]
    return ref.run_reference(prog, st.get('input'), main.get('env'), fn,
                             opts=st.get('params'))


def exc_signature(e, tb_text=None):
    """'<ExcType>@<module>.<function>' of the innermost /repo frame."""
    name = type(e).__name__
    where = '?'
    try:
        frames = traceback.extract_tb(e.__traceback__)
        import os
        root = os.environ.get('VERIF_REPO', '/repo').rstrip('/') + '/'
        for fr in reversed(frames):
            if fr.filename.startswith(root):
                where = '%s.%s' % (
                    fr.filename[len(root):-3].replace('/', '.'), fr.name)
                break
    except Exception:
        pass
    return '%s@%s' % (name, where)


# ---------------------------------------------------------------- shrinking
def render_placed(prog, place, ns):
    """Definitions spread over the namespace ns and the default namespace
    (place: workflow name -> 'ns' | 'default' | 'both'; the first workflow
    is always in ns)."""
    wfs = prog['workflows']
    in_ns = [wfs[0]] + [w for w in wfs[1:]
                        if place.get(w['name'], 'ns') in ('ns', 'both')]
    in_def = [w for w in wfs[1:]
              if place.get(w['name'], 'ns') in ('default', 'both')]
    defs = gen.render_program({'workflows': in_ns, 'workbook': None})
    defs['namespace'] = ns
    if in_def:
        defs['groups'] = [{
            'namespace': '',
            'workflows': gen.render_program(
                {'workflows': in_def, 'workbook': None})['workflows']}]
    return defs


def _rerender(case, prog):
    c = dict(case)
    c['prog'] = prog
    old = case.get('defs') or {}
    if case.get('def_place'):
        c['defs'] = render_placed(prog, case['def_place'],
                                  old.get('namespace', ''))
    else:
        c['defs'] = gen.render_program(prog)
        if 'namespace' in old:
            c['defs']['namespace'] = old['namespace']
    return c


def shrink_candidates(case):
    """Structural simplifications of the generated program."""
    import copy
    prog = case.get('prog')
    if not prog:
        return
    # drop whole child workflows that are no longer referenced
    for wi, wf in enumerate(prog['workflows']):
        tasks = wf['tasks']
        # remove a task (and every reference to it)
        if len(tasks) > 1:
            for ti in range(len(tasks) - 1, -1, -1):
                p2 = copy.deepcopy(prog)
                w2 = p2['workflows'][wi]
                name = w2['tasks'][ti]['name']
                del w2['tasks'][ti]
                for t in w2['tasks']:
                    for cl in ('on_success', 'on_error', 'on_complete'):
                        if t.get(cl):
                            t[cl] = [e for e in t[cl] if e['to'] != name]
                            if not t[cl]:
                                del t[cl]
                    if t.get('requires'):
                        t['requires'] = [r for r in t['requires']
                                         if r != name]
                td = w2.get('task_defaults') or {}
                for cl in ('on_success', 'on_error', 'on_complete'):
                    if td.get(cl):
                        td[cl] = [e for e in td[cl] if e['to'] != name]
                        if not td[cl]:
                            del td[cl]
                # joins that lost inbound edges
                ok = True
                for t in w2['tasks']:
                    if t.get('join') is not None:
                        srcs = set()
                        for o in w2['tasks']:
                            for cl in ('on_success', 'on_error',
                                       'on_complete'):
                                for e in o.get(cl) or []:
                                    if e['to'] == t['name']:
                                        srcs.add(o['name'])
                        if isinstance(t['join'], int) and \
                                t['join'] > max(1, len(srcs)):
                            t['join'] = max(1, len(srcs))
                if w2.get('target') == name:
                    ok = False
                if ok:
                    yield _rerender(case, p2)
        for ti, t in enumerate(tasks):
            for key in ('retry', 'with_items', 'concurrency', 'publish',
                        'publish_on_error', 'adv_publish', 'wait_before',
                        'wait_after', 'timeout', 'fail_on', 'join',
                        'on_complete', 'on_error', 'on_success'):
                if t.get(key) is not None:
                    p2 = copy.deepcopy(prog)
                    t2 = p2['workflows'][wi]['tasks'][ti]
                    del t2[key]
                    if key == 'with_items':
                        t2.pop('concurrency', None)
                    yield _rerender(case, p2)
            for cl in ('on_success', 'on_error', 'on_complete'):
                ents = t.get(cl) or []
                if len(ents) > 1:
                    for ei in range(len(ents)):
                        p2 = copy.deepcopy(prog)
                        del p2['workflows'][wi]['tasks'][ti][cl][ei]
                        yield _rerender(case, p2)
                for ei, en in enumerate(ents):
                    if en.get('guard') is not None:
                        p2 = copy.deepcopy(prog)
                        del p2['workflows'][wi]['tasks'][ti][cl][ei]['guard']
                        yield _rerender(case, p2)
            pub = t.get('publish') or {}
            if len(pub) > 1:
                for k in sorted(pub):
                    p2 = copy.deepcopy(prog)
                    del p2['workflows'][wi]['tasks'][ti]['publish'][k]
                    yield _rerender(case, p2)
            if (t.get('body') or {}).get('kind') == 'wf':
                p2 = copy.deepcopy(prog)
                p2['workflows'][wi]['tasks'][ti]['body'] = {'kind': 'sync'}
                yield _rerender(case, p2)
            wi_ = t.get('with_items')
            if wi_ and wi_['n'] > 1:
                p2 = copy.deepcopy(prog)
                w = p2['workflows'][wi]['tasks'][ti]['with_items']
                w['n'] -= 1
                w['list'] = ['const', list(range(w['n']))]
                yield _rerender(case, p2)
        for key in ('output', 'output_on_error', 'task_defaults', 'vars'):
            if wf.get(key):
                p2 = copy.deepcopy(prog)
                del p2['workflows'][wi][key]
                yield _rerender(case, p2)
    if len(prog['workflows']) > 1:
        used = set()
        for w in prog['workflows']:
            for t in w['tasks']:
                if (t.get('body') or {}).get('kind') == 'wf':
                    used.add(t['body']['wf'])
        for wi in range(len(prog['workflows']) - 1, 0, -1):
            if prog['workflows'][wi]['name'] not in used:
                p2 = copy.deepcopy(prog)
                del p2['workflows'][wi]
                yield _rerender(case, p2)
    # configuration back to defaults
    cfg = case.get('config') or {}
    for k, v in sorted(world.DEFAULT_CFG.items()):
        if cfg.get(k) != v and k in cfg:
            c2 = dict(case)
            c2['config'] = dict(cfg)
            c2['config'][k] = v
            yield c2


# -------------------------------------------------------------------- tags
def case_tags(case):
    """Structural tags of a (minimised) case; known findings are keyed by
    the tags they need."""
    tags = set()
    prog = case.get('prog') or {'workflows': []}
    cfg = case.get('config') or {}
    if cfg.get('subwf_via_rpc'):
        tags.add('via_rpc')
    if cfg.get('engines', 1) > 1:
        tags.add('engines2')
    if cfg.get('executor_type') == 'local':
        tags.add('local_exec')
    if cfg.get('scheduler_type') == 'default':
        tags.add('sched_default')
    else:
        tags.add('sched_legacy')
    if len(prog['workflows']) > 1:
        tags.add('multi_wf')
    for w in prog['workflows']:
        if w.get('type') == 'reverse':
            tags.add('reverse')
        if w.get('task_defaults'):
            tags.add('task_defaults')
            if (w['task_defaults'] or {}).get('retry'):
                tags.add('retry')
        pubs = {}
        dictpub = set()
        notpure = set()     # published at least once in a non-dict form
        for t in w['tasks']:
            kind = (t.get('body') or {}).get('kind')
            allpubs = [t.get('publish') or {}, t.get('publish_on_error') or {}]
            for cl, adv in (t.get('adv_publish') or {}).items():
                allpubs.append(adv.get('branch') or {})
            for pd in allpubs[2:]:
                for v in pd:
                    pubs[v] = pubs.get(v, 0) + 1
            for pd in allpubs:
                for v, e in pd.items():
                    if e[0] != 'dict' or (kind == 'wf' and
                                          'res' in json.dumps(e)):
                        # (a dict literal that embeds the output of a
                        # sub-workflow has varying leaf keys as well)
                        notpure.add(v)
                    if _has_dict(e) or (e[0] == 'res' and kind == 'wf') or \
                            (e[0] == 'list' and any(
                                x[0] == 'res' and kind == 'wf'
                                for x in e[1])):
                        dictpub.add(v)
            if kind == 'wf':
                tags.add('subwf')
            if kind == 'async':
                tags.add('async')
            if t.get('with_items'):
                tags.add('with_items')
                if kind == 'wf':
                    tags.add('wi_wf')
            if t.get('concurrency') is not None:
                tags.add('concurrency')
            if t.get('retry'):
                tags.add('retry')
            j = t.get('join')
            if j is not None:
                tags.add('join')
                if j != 'all':
                    tags.add('partial_join')
            for key in ('wait_before', 'wait_after', 'timeout', 'fail_on',
                        'pause_before'):
                if t.get(key) is not None:
                    tags.add(key)
                    if t.get('join') is not None and key in (
                            'wait_before', 'timeout', 'pause_before'):
                        tags.add('join_policy')
            if t.get('join') is not None and \
                    (w.get('task_defaults') or {}).get('wait_before'):
                tags.add('join_policy')
            for key in ('publish', 'publish_on_error'):
                for v, e in (t.get(key) or {}).items():
                    pubs.setdefault(v, 0)
                    pubs[v] += 1
                    if _has_dict(e):
                        tags.add('nested_publish')
                    if e[0] == 'bad':
                        tags.add('bad_expr')
            if t.get('adv_publish'):
                tags.add('adv_publish')
            for cl in ('on_success', 'on_error', 'on_complete'):
                for en in t.get(cl) or []:
                    if en['to'] in ('fail', 'succeed', 'pause'):
                        tags.add('cmd_' + en['to'])
                    if en.get('guard') is not None:
                        tags.add('guard')
                        if en['guard'][0] == 'bad':
                            tags.add('bad_expr')
        inbound_cnt = {}
        for t in w['tasks']:
            for cl in ('on_success', 'on_error', 'on_complete'):
                for en in t.get(cl) or []:
                    inbound_cnt[en['to']] = inbound_cnt.get(en['to'], 0) + 1
        td = w.get('task_defaults') or {}
        for cl in ('on_success', 'on_error', 'on_complete'):
            for en in td.get(cl) or []:
                inbound_cnt[en['to']] = inbound_cnt.get(en['to'], 0) + 2
        for t in w['tasks']:
            if t.get('join') is None and inbound_cnt.get(t['name'], 0) > 1:
                tags.add('multi_occurrence')
        if any(c > 1 for c in pubs.values()):
            tags.add('republish')
        # F2 needs a variable whose leaf keys change between two publishes
        # (scalar <-> dict, sub-workflow output); the generator's dict
        # literal always has the same keys, so a variable that is only ever
        # published as that literal keeps its leaf keys
        if any(c > 1 and v in dictpub and v in notpure
               for v, c in pubs.items()):
            tags.add('republish_dict')
        if any(c > 1 and v in dictpub and v not in notpure
               for v, c in pubs.items()):
            tags.add('republish_dict_same')
    for op in case.get('ops') or []:
        tags.add('op_' + op['op'])
    for f in case.get('faults') or []:
        tags.add('fault_' + f['kind'])
    return tags


def _has_dict(e):
    if e[0] == 'dict':
        return True
    if e[0] == 'list':
        return any(_has_dict(x) for x in e[1])
    return False


def tag_signature(case, extra=''):
    return ' '.join(sorted(case_tags(case))) + (' ' + extra if extra else '')


def avoid_known(case, rng, p_keep=0.08):
    """Most runs of the general checks stay away from the constructs of
    open known findings (their own properties explore them fully), so that
    the budget is not spent re-minimising the same defect."""
    import copy
    if rng.random() < p_keep:
        return case
    tags = case_tags(case)
    prog = case['prog']
    changed = False
    if {'via_rpc', 'wi_wf', 'concurrency'} <= tags:
        case['config']['subwf_via_rpc'] = False
    if {'with_items', 'concurrency', 'retry'} <= tags:
        for w in prog['workflows']:
            td_retry = (w.get('task_defaults') or {}).get('retry')
            for t in w['tasks']:
                if t.get('with_items') and t.get('concurrency') is not None \
                        and (t.get('retry') or td_retry):
                    t.pop('concurrency', None)
                    changed = True
    if changed:
        case['defs'] = _rerender(case, prog)['defs']
    return case
