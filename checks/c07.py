"""C07 - with-items runs each item once, within the concurrency limit,
results in item order."""

import random

from checks import progcase
from checks import trace
from mistralsim import gen
from mistralsim import runner

PLAN = {
    'quick': {'runs': 3500, 'budget': 75},
    'thorough': {'runs': 150000, 'budget': 1100},
}
RULE = ('Generated programs around one or two with-items tasks: 0-5 items, '
        'concurrency absent / 1..n+1 / given as expression, items = sync, '
        'async actions or sub-workflows, per-item outcomes, optional retry, '
        'optional rerun (reset on/off) after failure; all completion orders '
        'through schedules and latencies, both schedulers, 1-2 engines; ')
ASSUMPTIONS = ['per-item results are taken from the accepted child '
               'execution rows and cross-checked with the outcome '
               'assignment of the simulated actions']


def make_case(seed, tier):
    rng = random.Random(seed)
    lang = rng.choice(['yaql', 'yaql', 'jinja'])
    tasks = []
    children = []
    n_wi = rng.choice([1, 1, 2])
    names = ['t%d' % i for i in range(n_wi + rng.choice([0, 1, 2]))]
    wi_names = rng.sample(names, n_wi)
    for i, nm in enumerate(names):
        t = {'name': nm, 'body': {'kind': 'sync'}}
        if nm in wi_names:
            cnt = rng.choice([0, 1, 2, 3, 3, 4, 5])
            kind = rng.choice(['sync', 'sync', 'async', 'wf'])
            t['body'] = {'kind': kind}
            if kind == 'wf':
                cname = 'child%d' % i
                t['body']['wf'] = cname
                ctasks = [{'name': 'c0', 'body': {'kind': rng.choice(
                    ['sync', 'async'])}}]
                if rng.random() < 0.4:
                    ctasks[0]['on_success'] = [{'to': 'c1'}]
                    ctasks.append({'name': 'c1', 'body': {'kind': 'sync'}})
                cw = {'name': cname, 'short': cname, 'type': 'direct',
                      'lang': lang, 'tasks': ctasks, 'input': [{'x': 1}],
                      'path_input': True}
                if rng.random() < 0.5:
                    cw['output'] = {'r': ['const', 'out']}
                children.append(cw)
            t['with_items'] = {'var': 'i', 'n': cnt,
                               'list': ['const', list(range(cnt))]}
            r = rng.random()
            if r < 0.5:
                t['concurrency'] = rng.randint(1, cnt + 1)
            elif r < 0.65:
                t['concurrency'] = ['var', 'c']
            if rng.random() < 0.2 and kind != 'wf':
                t['retry'] = {'count': rng.choice([1, 2]),
                              'delay': rng.choice([0, 1, 3])}
            if rng.random() < 0.5:
                t['publish'] = {'res%d' % i: ['res']}
        tasks.append(t)
    for i, t in enumerate(tasks[:-1]):
        if rng.random() < 0.6:
            t['on_success'] = [{'to': tasks[i + 1]['name']}]
        if rng.random() < 0.3:
            t['on_error'] = [{'to': tasks[i + 1]['name']}]
    if len(tasks) > 1 and tasks[-1].get('on_success') is None:
        pass
    wf = {'name': 'main', 'short': 'main', 'type': 'direct', 'lang': lang,
          'tasks': tasks, 'input': [{'x': 1}, {'c': rng.randint(1, 4)}],
          'path_input': False}
    prog = {'workflows': [wf] + children, 'workbook': None}
    case = runner.default_case()
    case['seed'] = seed
    case['prog'] = prog
    case['feats'] = ['with_items']
    case['defs'] = gen.render_program(prog)
    case['starts'] = [{'wf': 'main', 'input': {'x': 1}, 'params': {}}]
    case['outcome_seed'] = seed
    case['p_err'] = rng.choice([0.0, 0.0, 0.2, 0.4])
    case['outcome_special'] = False
    progcase.swarm_config(rng, case)
    progcase.avoid_known(case, rng, p_keep=0.15)
    case['latency'] = rng.choice([0, 0, 1.0, 3.0])
    if rng.random() < 0.25:
        case['ops'] = [{'op': 'rerun', 'at_step': rng.randint(60, 400),
                        'target': {'state': 'ERROR', 'index': 0,
                                   'name': rng.choice(wi_names)},
                        'reset': rng.random() < 0.5}]
        case['settle'] = 30
    elif rng.random() < 0.25 and any(
            (t.get('body') or {}).get('kind') == 'async' and
            t.get('with_items') for t in tasks):
        # one asynchronous item is paused through the action-execution API
        # while the others go on, and resumed later
        a = rng.randint(10, 120)
        case['ops'] = [
            {'op': 'action_update', 'state': 'PAUSED', 'at_step': a,
             'target': {'state': 'RUNNING', 'sync': False,
                        'index': rng.randint(0, 3)}},
            {'op': 'action_update', 'state': 'RUNNING',
             'at_step': a + rng.randint(5, 150),
             'target': {'state': 'PAUSED', 'index': 0}}]
        case['auto_resume'] = 4
        case['item_pause'] = True
        case['settle'] = 30
    return case


def execute(case):
    from checks import c04
    return c04.Runner4(case).run()


def _wi_tasks(case):
    out = {}
    for w in case['prog']['workflows']:
        for t in w['tasks']:
            if t.get('with_items'):
                out[(w['name'], t['name'])] = t
    return out


def evaluate(case, res):
    out = []
    lab = res.labels
    hist = trace.History(res)
    wi = _wi_tasks(case)
    inp = dict(x=1, c=1)
    for i in case['prog']['workflows'][0].get('input') or []:
        if isinstance(i, dict):
            inp.update(i)
    inp.update(case['starts'][0].get('input') or {})
    wf_name = {}
    task_info = {}     # task id -> (ast, concurrency)
    done_commit = {}   # task id -> commit no of completion
    child_done = {}    # child id -> commit no of completion
    reruns = []        # (commit no, task id, reset)
    sig = progcase.tag_signature(case)
    had_rerun = any(o['op']['op'] == 'rerun' and o['result'] and
                    o['result'][0] == 'ok' for o in res.ops_log)
    for cno, step, actor, changes in hist.iterate():
        for table, id_, old, new in changes:
            if new is None:
                continue
            if table == trace.WF and old is None:
                wf_name[id_] = new.get('name')
            if table == trace.TASK and old is None:
                key = (wf_name.get(new.get('workflow_execution_id')),
                       new.get('name'))
                if key in wi:
                    t = wi[key]
                    c = t.get('concurrency')
                    if isinstance(c, list):
                        c = inp.get('c')
                    task_info[id_] = (t, c)
            if table == trace.TASK and id_ in task_info:
                so = old.get('state') if old else None
                sn = new.get('state')
                if sn in trace.TASK_DONE and so not in trace.TASK_DONE:
                    done_commit[id_] = cno
            if table in (trace.ACT, trace.WF):
                so = old.get('state') if old else None
                if new.get('state') in trace.TERMINAL and \
                        so not in trace.TERMINAL:
                    child_done[id_] = cno
        # online: concurrency bound over the committed state
        running = {}
        for tbl in (trace.ACT, trace.WF):
            for r in hist.rows[tbl].values():
                pid = r.get('task_execution_id')
                if pid in task_info and r.get('state') in (
                        'RUNNING', 'IDLE', 'PAUSED'):
                    running[pid] = running.get(pid, 0) + 1
        for pid, nrun in running.items():
            c = task_info[pid][1]
            if c and nrun > c:
                out.append((
                    'C07.over_concurrency',
                    'with-items task %s has %d children running after the '
                    'commit of %s (step %d), concurrency is %s' % (
                        lab.any(pid), nrun, actor, step, c), sig))
                return out
    # final checks per with-items task execution
    snap = res.snap
    children = {}
    for a in list(snap['action'].values()) + [
            w for w in snap['wf'].values() if w['task_execution_id']]:
        children.setdefault(a['task_execution_id'], []).append(a)
    for tid, (t, c) in task_info.items():
        row = snap['task'].get(tid)
        if row is None:
            continue
        n = t['with_items']['n']
        kids = children.get(tid, [])
        idx_of = lambda a: (a['runtime_context'] or {}).get('index', 0)
        for a in kids:
            if not (0 <= idx_of(a) < max(n, 1)):
                out.append(('C07.index_twice',
                            'task %s has a child with index %s outside '
                            '0..%d' % (lab.any(tid), idx_of(a), n - 1), sig))
        per_idx = {}
        for a in kids:
            per_idx.setdefault(idx_of(a), []).append(a)
        retry = t.get('retry')
        wf_state = snap['wf'][row['workflow_execution_id']]['state']
        if row['state'] in trace.TASK_DONE:
            if n == 0:
                if kids or row['state'] != 'SUCCESS':
                    out.append(('C07.final_state',
                                'empty with-items task %s is %s with %d '
                                'children' % (lab.any(tid), row['state'],
                                              len(kids)), sig))
                continue
            structural = 'Failed to' in (row['state_info'] or '') or \
                'timed out' in (row['state_info'] or '')
            if structural:
                continue
            acc = dict((i, [a for a in lst if a['accepted']])
                       for i, lst in per_idx.items())
            for i in range(n):
                k = len(acc.get(i, []))
                if k != 1 and row['state'] != 'CANCELLED':
                    out.append((
                        'C07.index_twice',
                        'completed with-items task %s (%s) has %d accepted '
                        'results for item %d (children per index: %s)' % (
                            lab.any(tid), row['state'], k, i,
                            dict((j, len(v)) for j, v in per_idx.items())),
                        sig))
            if not retry and not had_rerun and \
                    not (case['prog']['workflows'][0].get('task_defaults')):
                for i, lst in per_idx.items():
                    if len(lst) > 1:
                        out.append((
                            'C07.index_twice',
                            'item %d of %s was started %d times' % (
                                i, lab.any(tid), len(lst)), sig))
            accepted = [a for lst in acc.values() for a in lst]
            sts = [a['state'] for a in accepted]
            exp = 'CANCELLED' if 'CANCELLED' in sts else (
                'ERROR' if 'ERROR' in sts else 'SUCCESS')
            if row['state'] != exp and not out:
                out.append(('C07.final_state',
                            'with-items task %s is %s, accepted item states '
                            '%s' % (lab.any(tid), row['state'], sts), sig))
            # completion not before the last item
            dc = done_commit.get(tid)
            last = max([child_done.get(a['id'], -1) for a in accepted]
                       or [-1])
            if dc is not None and last > dc and not had_rerun:
                out.append(('C07.early_completion',
                            'task %s completed in commit %d, its last '
                            'accepted item in commit %d' % (
                                lab.any(tid), dc, last), sig))
            # result order
            canon = res.canon['tasks'].get(lab.task[tid]) or {}
            if not out and 'result' in canon:
                expres = []
                for i in range(n):
                    for a in acc.get(i, []):
                        o = a['output']
                        if 'is_sync' in a:
                            o = (o or {}).get('result')
                        elif isinstance(o, dict) and a['state'] != 'SUCCESS':
                            o = dict((k, v) for k, v in o.items()
                                     if k != 'result')
                        expres.append(o)
                pub = (row['published'] or {})
                for k, v in pub.items():
                    if k.startswith('res') and row['state'] == 'SUCCESS' \
                            and all('is_sync' in a for a in accepted):
                        if v != expres:
                            out.append((
                                'C07.result_order',
                                'task %s published its result as %r, item '
                                'results in index order are %r' % (
                                    lab.any(tid), v, expres), sig))
        elif wf_state not in trace.TERMINAL and wf_state != 'PAUSED':
            out.append(('C07.no_completion',
                        'with-items task %s is %s at quiescence although '
                        'the workflow is %s; children: %s' % (
                            lab.any(tid), row['state'], wf_state,
                            sorted((idx_of(a), a['state'], a['accepted'])
                                   for a in kids)), sig))
    # partial rerun scope
    for o in res.ops_log:
        if o['op']['op'] != 'rerun' or not o['result'] or \
                o['result'][0] != 'ok' or o['target_id'] not in task_info:
            continue
        if o['op'].get('reset', True):
            continue
        tid = o['target_id']
        dcm = o.get('done_commit')
        before_acc_ok = set()
        new_idx = set()
        for a in children.get(tid, []):
            pass
        # executions created after the rerun call returned
        created_after = [e for e in res.recorder.events
                         if e.op == 'insert' and e.committed and
                         e.table in (trace.ACT, trace.WF) and
                         e.vals.get('task_execution_id') == tid and
                         e.step >= o['issued_step']]
        okidx = set()
        for e in res.recorder.events:
            if e.committed and e.table in (trace.ACT, trace.WF) and \
                    e.step < o['issued_step'] and \
                    e.vals.get('state') == 'SUCCESS':
                row_ = snap['action'].get(e.id) or snap['wf'].get(e.id)
                if row_ and row_.get('task_execution_id') == tid:
                    okidx.add((row_['runtime_context'] or {}).get('index',
                                                                  0))
        for e in created_after:
            i = (e.vals.get('runtime_context') or {}).get('index', 0)
            if i in okidx and not task_info[tid][0].get('retry'):
                out.append((
                    'C07.rerun_scope',
                    'rerun with reset=false of %s re-executed item %d '
                    'which had succeeded' % (lab.any(tid), i), sig))
    return out


def nontrivial(case, res):
    return res.sim.concurrent_steps >= 2 and any(
        (t['spec'] or {}).get('with-items') for t in res.snap['task']
        .values())


def probes(case, res):
    snap = res.snap
    wi = [t for t in snap['task'].values()
          if (t['spec'] or {}).get('with-items')]
    st = res.sim.stats
    return {
        'wi_tasks': len(wi),
        'wi_error': sum(1 for t in wi if t['state'] == 'ERROR'),
        'wi_success': sum(1 for t in wi if t['state'] == 'SUCCESS'),
        'wi_with_concurrency': sum(
            1 for t in wi if (t['runtime_context'] or {}).get('concurrency')),
        'rerun_ok': sum(1 for o in res.ops_log if o['result'] and
                        o['result'][0] == 'ok' and
                        o['op']['op'] == 'rerun'),
        'item_paused': sum(1 for o in res.ops_log if o['result'] and
                           o['result'][0] == 'ok' and
                           o['op'].get('state') == 'PAUSED'),
    }


shrink_candidates = progcase.shrink_candidates
