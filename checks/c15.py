"""C15 - tenants are isolated: private data is invisible, others cannot
modify yours."""

import copy
import json
import random

from checks import progcase
from mistralsim import core
from mistralsim import gen
from mistralsim import observe
from mistralsim import runner
from mistralsim import world

PLAN = {
    'quick': {'runs': 2500, 'budget': 75},
    'thorough': {'runs': 100000, 'budget': 1100},
}
RULE = ('Two modes. engine (schedules matter): two projects run generated '
        'workflows with the same names concurrently on shared engine / '
        'scheduler / executor nodes with authentication enabled; each '
        'workflow carries a secret and spies on the other project through '
        'executions() / tasks() / global lookups by the id of the other '
        'execution. history (sequential model, no schedule dimension): '
        'seeded histories of 10-30 db-api operations by actors A, B, C and '
        'admin over workflow definitions, environments, cron triggers, '
        'executions, tasks, actions and workflow sharing (pending / '
        'accepted / rejected), private and public, with name collisions; ')
ASSUMPTIONS = ['history mode has no fault or schedule dimension: it is a '
               'multi-principal history checked against a sequential access '
               'model and is labelled so']
IDS = {'proj-a': '0000aaaa-0000-4000-8000-00000000000a',
       'proj-b': '0000bbbb-0000-4000-8000-00000000000b'}
FEATS = ('guards', 'joins', 'on_error', 'publish', 'errors', 'async',
         'with_items', 'subwf', 'retry')


def spy_task(lang='yaql'):
    return {'name': 'spy', 'body': {'kind': 'noop'}, 'lang': 'yaql',
            'raw_publish': {
                'spy_execs': '<% executions($.other).select($.id) %>',
                'spy_tasks': '<% tasks($.other).select($.id) %>',
                'spy_all': '<% executions().select($.id) %>',
                'me': '<% execution().id %>'}}


def make_case(seed, tier):
    rng = random.Random(seed)
    mode = rng.choice(['engine', 'engine', 'history'])
    case = runner.default_case()
    case['seed'] = seed
    case['mode'] = mode
    c = case['config']
    c['options'] = {'pecan.auth_enable': True}
    if mode == 'history':
        c['engines'] = 1
        c['executor_type'] = 'local'
        c['integrity_delay'] = -1
        case['history'] = gen_history(rng)
        return case
    by_project = {}
    starts = []
    progs = {}
    for i, project in enumerate(('proj-a', 'proj-b')):
        pc, _ = progcase.program_case(seed * 2 + i, FEATS,
                                      max_tasks=rng.choice([2, 3, 4]),
                                      p=0.4, p_err_choices=(0.0, 0.2))
        prog = pc['prog']
        main = prog['workflows'][0]
        main['input'].append({'other': 'none'})
        main['input'].append({'secret': 'none'})
        # every task that publishes also publishes the secret
        for t in main['tasks']:
            if t.get('publish'):
                t['publish']['sec'] = ['var', 'secret']
        progs[project] = prog
        defs = gen.render_program(prog)
        # add the spy task by text (raw YAQL, not part of the AST)
        defs['workflows'][0] = add_spy(defs['workflows'][0])
        by_project[project] = defs
        other = 'proj-b' if project == 'proj-a' else 'proj-a'
        starts.append({'wf': 'main', 'project': project,
                       'wf_ex_id': IDS[project],
                       'input': {'x': 1, 'other': IDS[other],
                                 'secret': 'SECRET-%s' % project},
                       'params': {}, 'delay': rng.choice([0, 0, 0.5, 2])})
    case['defs'] = {'by_project': by_project}
    case['starts'] = starts
    case['outcome_seed'] = seed
    case['p_err'] = 0.1
    progcase.swarm_config(rng, case)
    c = case['config']
    c['options'] = dict(c.get('options') or {})
    c['options']['pecan.auth_enable'] = True
    c['subwf_via_rpc'] = rng.random() < 0.3
    return case


def add_spy(text):
    import yaml
    d = yaml.safe_load(text)
    d['main']['tasks']['spy'] = {
        'action': 'std.noop',
        'publish': {
            'spy_execs': '<% executions($.other).len() %>',
            'spy_tasks': '<% tasks($.other).len() %>',
            'spy_all': '<% executions().len() %>',
        }}
    return yaml.safe_dump(d, sort_keys=False, default_flow_style=False)


# ------------------------------------------------------------------ history
ACTORS = ['pa', 'pb', 'pc', 'admin']
RTYPES = ['wf', 'env', 'cron', 'exec', 'wb', 'adef', 'csrc', 'dyn', 'evt']


def gen_history(rng):
    ops = []
    n = rng.randint(10, 30)
    names = ['n1', 'n2']
    for i in range(n):
        if i < n * 0.35:
            kind = 'create'
        else:
            kind = rng.choice(['create', 'get', 'get', 'list', 'update',
                               'delete', 'share', 'share', 'member_update',
                               'member_update', 'get_by_id', 'update_by_id',
                               'delete_by_id'])
        op = {'op': kind, 'actor': rng.choice(ACTORS),
              'rtype': rng.choice(RTYPES + ['wf']),
              'name': rng.choice(names),
              'scope': rng.choice(['private', 'private', 'public']),
              'target': rng.randint(0, 6),
              'member': rng.choice(['pa', 'pb', 'pc']),
              'status': rng.choice(['accepted', 'rejected'])}
        ops.append(op)
    if rng.random() < 0.5:
        # scripted sharing sequence: a private workflow is shared with one
        # project, which accepts or rejects; then every project reads by id
        # and lists (a third project must never see it)
        owner = rng.choice(['pa', 'pb', 'pc'])
        member = rng.choice([x for x in ('pa', 'pb', 'pc') if x != owner])
        base = {'rtype': 'wf', 'name': 'n1', 'scope': 'private',
                'target': 0, 'member': member,
                'status': rng.choice(['accepted', 'accepted', 'rejected']),
                'ref': 'last_private_wf'}
        seq = [dict(base, op='create', actor=owner, ref=None),
               dict(base, op='share', actor=owner),
               dict(base, op='member_update', actor=member)]
        for a in ('pa', 'pb', 'pc'):
            seq.append(dict(base, op='get_by_id', actor=a))
            seq.append(dict(base, op='list', actor=a))
        at = rng.randint(0, len(ops))
        ops[at:at] = seq
    return ops


WFTXT = """
version: '2.0'
%s:
  tasks:
    t:
      action: std.noop
"""


class Model(object):
    """Sequential access model."""

    def __init__(self):
        self.res = []     # dicts: rtype, name, owner, scope, id, alive
        self.members = {}  # (res id, member) -> status

    def visible(self, actor, r):
        if not r['alive']:
            return False
        if actor == 'admin' or r['owner'] == actor:
            return True
        if r['rtype'] in ('wf', 'env', 'cron', 'wb', 'adef', 'csrc',
                          'dyn', 'evt') and r['scope'] == 'public':
            return True
        if r['rtype'] == 'wf' and \
                self.members.get((r['id'], actor)) == 'accepted':
            return True
        return False

    def modifiable(self, actor, r):
        return r['alive'] and (actor == 'admin' or r['owner'] == actor)


class Runner15(runner.Runner):
    def setup(self):
        if self.case['mode'] == 'engine':
            return super(Runner15, self).setup()
        self.pending_ops = []
        self.pending_faults = []
        sim = self.sim
        self.results = []
        sim.spawn('history', self._history, node=self.world.client_node,
                  kind='client')

    def _ctx(self, actor):
        if actor == 'admin':
            return world.user_ctx('proj-admin', 'admin', admin=True)
        return world.user_ctx({'pa': 'proj-a', 'pb': 'proj-b',
                               'pc': 'proj-c'}[actor], 'user-' + actor)

    def _history(self):
        m = world.M
        model = Model()
        self.model = model
        proj = {'pa': 'proj-a', 'pb': 'proj-b', 'pc': 'proj-c',
                'admin': 'proj-admin'}
        for i, op in enumerate(self.case['history']):
            actor = op['actor']
            m.auth_ctx.set_ctx(self._ctx(actor))
            rec = {'i': i, 'op': op, 'ok': None, 'exc': None, 'ids': None,
                   'viol': None}
            try:
                self._do(op, actor, model, rec, proj)
            except Exception as e:
                rec['exc'] = type(e).__name__
                rec['msg'] = str(e)[:200]
            finally:
                m.auth_ctx.set_ctx(None)
            self.results.append(rec)

    def _admin_view(self):
        m = world.M
        db = m.db_api
        cur = m.auth_ctx.ctx() if m.auth_ctx.has_ctx() else None
        m.auth_ctx.set_ctx(world.user_ctx('proj-admin', 'admin', admin=True))
        try:
            view = {}
            with db.transaction(read_only=True):
                for x in db.get_workflow_definitions():
                    view[x.id] = ('wf', json.dumps(x.tags), x.project_id)
                for x in db.get_environments():
                    view[x.id] = ('env', json.dumps(x.variables,
                                                    sort_keys=True),
                                  x.project_id)
                for x in db.get_cron_triggers():
                    view[x.id] = ('cron', str(x.remaining_executions),
                                  x.project_id)
                for x in db.get_event_triggers():
                    view[x.id] = ('evt', json.dumps(x.workflow_input,
                                                    sort_keys=True),
                                  x.project_id)
                for x in db.get_workflow_executions():
                    view[x.id] = ('exec', str(x.description), x.project_id)
                for x in db.get_workbooks():
                    view[x.id] = ('wb', json.dumps(x.tags), x.project_id)
                for x in db.get_action_definitions():
                    if not x.is_system:
                        view[x.id] = ('adef', json.dumps(x.tags),
                                      x.project_id)
                for x in db.get_code_sources():
                    view[x.id] = ('csrc', json.dumps(x.tags), x.project_id)
                for x in db.get_dynamic_action_definitions():
                    view[x.id] = ('dyn', str(x.class_name), x.project_id)
            return view
        finally:
            m.auth_ctx.set_ctx(cur)

    def _diff_check(self, actor, model, rec, before):
        after = self._admin_view()
        known = dict((x['id'], x) for x in model.res)
        for i_, v in before.items():
            x = known.get(i_)
            if x is None:
                continue
            if i_ not in after:
                if not model.modifiable(actor, x) and not (
                        x['rtype'] in ('cron', 'dyn')):
                    rec['viol'] = ('C15.foreign_modify',
                                   '%s deleted %s %s of %s (%s)' % (
                                       actor, x['rtype'], x['name'],
                                       x['owner'], x['scope']))
                x['alive'] = False
            elif after[i_] != v:
                if not model.modifiable(actor, x):
                    rec['viol'] = ('C15.foreign_modify',
                                   '%s changed %s %s of %s (%s): %s -> %s'
                                   % (actor, x['rtype'], x['name'],
                                      x['owner'], x['scope'], v[1],
                                      after[i_][1]))
        # cron triggers die with their workflow (cascade): not a violation
        for x in model.res:
            if x['alive'] and x['id'] not in after:
                x['alive'] = False

    def _pick(self, model, op, only_alive=True):
        if op.get('ref') == 'last_private_wf':
            cands = [r for r in model.res if r['rtype'] == 'wf' and
                     r['alive'] and r['scope'] == 'private']
            return cands[-1] if cands else None
        cands = [r for r in model.res if r['rtype'] == op['rtype'] and
                 (r['alive'] or not only_alive)]
        if not cands:
            return None
        return cands[op['target'] % len(cands)]

    def _do(self, op, actor, model, rec, proj):
        m = world.M
        db = m.db_api
        kind, rtype, name = op['op'], op['rtype'], op['name']
        DENIED = ('DBEntityNotFoundError', 'NotAllowedException')
        if kind == 'create':
            own = [r for r in model.res if r['alive'] and r['rtype'] == rtype
                   and r['name'] == name and r['owner'] == actor]
            try:
                if rtype == 'wf':
                    r = m.wf_service.create_workflows(
                        WFTXT % name, scope=op['scope'])[0]
                elif rtype == 'env':
                    with db.transaction():
                        r = db.create_environment({
                            'name': name, 'variables': {'secret': actor},
                            'scope': op['scope']})
                elif rtype == 'wb':
                    with db.transaction():
                        r = db.create_workbook({
                            'name': name, 'definition': 'secret-' + actor,
                            'spec': {}, 'scope': op['scope'], 'tags': []})
                elif rtype == 'adef':
                    with db.transaction():
                        r = db.create_action_definition({
                            'name': name, 'definition': 'secret-' + actor,
                            'spec': {}, 'scope': op['scope'], 'tags': [],
                            'is_system': False, 'input': ''})
                elif rtype == 'csrc':
                    with db.transaction():
                        r = db.create_code_source({
                            'name': name, 'content': 'secret-' + actor,
                            'version': 1, 'scope': op['scope'],
                            'namespace': '', 'tags': []})
                elif rtype == 'dyn':
                    srcs = [x for x in model.res if x['alive'] and
                            x['rtype'] == 'csrc' and x['owner'] == actor]
                    if not srcs:
                        rec['ok'] = 'skip'
                        return
                    with db.transaction():
                        r = db.create_dynamic_action_definition({
                            'name': name, 'class_name': 'C-' + actor,
                            'code_source_id': srcs[0]['id'],
                            'code_source_name': srcs[0]['name'],
                            'scope': op['scope'], 'namespace': ''})
                elif rtype == 'evt':
                    wfs = [x for x in model.res if x['alive'] and
                           x['rtype'] == 'wf' and model.visible(actor, x)]
                    if not wfs:
                        rec['ok'] = 'skip'
                        return
                    with db.transaction():
                        r = db.create_event_trigger({
                            'name': name, 'workflow_id': wfs[0]['id'],
                            'workflow_input': {'secret': actor},
                            'workflow_params': {}, 'exchange': 'ex',
                            'topic': 'tp-%s' % name,
                            'event': 'ev-%d' % len(model.res),
                            'trust_id': None, 'scope': op['scope']})
                elif rtype == 'cron':
                    wfs = [x for x in model.res if x['alive'] and
                           x['rtype'] == 'wf' and model.visible(actor, x)]
                    if not wfs:
                        rec['ok'] = 'skip'
                        return
                    r = m.triggers.create_cron_trigger(
                        name, wfs[0]['name'], {}, {}, '* * * * *', None,
                        None, None, workflow_id=wfs[0]['id'])
                else:
                    with db.transaction():
                        r = db.create_workflow_execution({
                            'id': m.ml_utils.generate_unicode_uuid(),
                            'name': name, 'workflow_name': name, 'spec': {},
                            'state': 'SUCCESS', 'output': {'secret': actor},
                            'input': {}, 'params': {}, 'context': {},
                            'runtime_context': {}})
                        t = db.create_task_execution({
                            'id': m.ml_utils.generate_unicode_uuid(),
                            'name': 't', 'workflow_execution_id': r.id,
                            'state': 'SUCCESS', 'spec': {},
                            'in_context': {'secret': actor},
                            'published': {}, 'runtime_context': {},
                            'type': 'ACTION'})
                        a = db.create_action_execution({
                            'id': m.ml_utils.generate_unicode_uuid(),
                            'name': 'std.noop', 'task_execution_id': t.id,
                            'state': 'SUCCESS', 'input': {},
                            'output': {'result': 'secret-%s' % actor},
                            'runtime_context': {'index': 0},
                            'is_sync': True})
                        rec['task_id'], rec['action_id'] = t.id, a.id
                rec['ok'] = True
                exp_project = proj[actor] if actor != 'admin' \
                    else 'proj-admin'
                if r.project_id != exp_project:
                    rec['viol'] = ('C15.wrong_project',
                                   'resource created by %s belongs to %r' %
                                   (actor, r.project_id))
                model.res.append({
                    'rtype': rtype, 'name': name, 'owner': actor,
                    'scope': op['scope'] if rtype in ('wf', 'env', 'wb',
                                                       'adef', 'csrc',
                                                       'dyn', 'evt')
                    else 'private', 'id': r.id, 'alive': True,
                    'task_id': rec.get('task_id'),
                    'action_id': rec.get('action_id')})
            except Exception as e:
                rec['exc'] = type(e).__name__
                if not own and type(e).__name__ == 'DBDuplicateEntryError':
                    rec['viol'] = ('C15.read_leak',
                                   '%s cannot create %s %s: %s (name taken '
                                   'by another project)' % (actor, rtype,
                                                            name, e))
            return
        r = self._pick(model, op)
        if r is None:
            rec['ok'] = 'skip'
            return
        vis, mod = model.visible(actor, r), model.modifiable(actor, r)
        rec['target'] = (r['rtype'], r['name'], r['owner'], r['scope'])
        getter = {'wf': db.get_workflow_definition,
                  'env': db.get_environment,
                  'cron': db.get_cron_trigger,
                  'evt': db.get_event_trigger,
                  'exec': db.get_workflow_execution,
                  'wb': db.get_workbook,
                  'adef': db.get_action_definition,
                  'csrc': db.get_code_source,
                  'dyn': db.get_dynamic_action_definition}[r['rtype']]
        if kind in ('get_by_id', 'get'):
            ident = r['id']
            if (kind == 'get' and r['rtype'] != 'exec') or \
                    r['rtype'] in ('env', 'wb'):
                ident = r['name']
                kind = 'get'
                # by name the actor may legitimately get another visible
                # resource with the same name: only leaks are checked
            try:
                with db.transaction():
                    got = getter(ident)
                    gid, gproj = got.id, got.project_id
                    extra = []
                    if r['rtype'] == 'exec' and kind == 'get_by_id':
                        t = db.get_task_execution(r['task_id'])
                        a = db.get_action_execution(r['action_id'])
                        extra = [t.id, a.id]
                rec['ok'] = True
                target = [x for x in model.res if x['id'] == gid]
                if target and not model.visible(actor, target[0]):
                    rec['viol'] = ('C15.read_leak',
                                   '%s read %s %s of %s (%s)' % (
                                       actor, r['rtype'], target[0]['name'],
                                       target[0]['owner'],
                                       target[0]['scope']))
                if kind == 'get_by_id' and vis and gid != r['id']:
                    rec['viol'] = ('C15.read_leak', 'wrong object by id')
            except Exception as e:
                rec['exc'] = type(e).__name__
                if vis and kind == 'get_by_id':
                    rec['viol'] = ('C15.read_leak',
                                   '%s cannot read visible %s %s of %s: %s'
                                   % (actor, r['rtype'], r['name'],
                                      r['owner'], type(e).__name__))
        elif kind == 'list':
            lister = {'wf': db.get_workflow_definitions,
                      'env': db.get_environments,
                      'cron': db.get_cron_triggers,
                      'evt': db.get_event_triggers,
                      'exec': db.get_workflow_executions,
                      'wb': db.get_workbooks,
                      'adef': db.get_action_definitions,
                      'csrc': db.get_code_sources,
                      'dyn': db.get_dynamic_action_definitions}[r['rtype']]
            with db.transaction():
                ids = [x.id for x in lister()]
                if r['rtype'] == 'exec':
                    tids = [x.id for x in db.get_task_executions()]
                    aids = [x.id for x in db.get_action_executions()]
                else:
                    tids, aids = [], []
            rec['ok'] = True
            known = dict((x['id'], x) for x in model.res)
            for i_ in ids:
                x = known.get(i_)
                if x is not None and not model.visible(actor, x):
                    rec['viol'] = ('C15.read_leak',
                                   '%s listed %s %s of %s (%s)' % (
                                       actor, x['rtype'], x['name'],
                                       x['owner'], x['scope']))
            for x in model.res:
                if x['rtype'] == r['rtype'] and x['alive'] and \
                        model.visible(actor, x) and x['id'] not in ids:
                    rec['viol'] = ('C15.read_leak',
                                   '%s does not see visible %s %s of %s' % (
                                       actor, x['rtype'], x['name'],
                                       x['owner']))
                if x['rtype'] == 'exec' and x['alive'] and \
                        not model.visible(actor, x) and (
                            x['task_id'] in tids or x['action_id'] in aids):
                    rec['viol'] = ('C15.read_leak',
                                   '%s listed a task/action of an execution '
                                   'of %s' % (actor, x['owner']))
        elif kind in ('update_by_id', 'update'):
            ident = r['id']
            before = self._admin_view()
            if r['rtype'] in ('env', 'wb'):
                kind = 'update'
            try:
                with db.transaction():
                    if r['rtype'] == 'wf':
                        db.update_workflow_definition(ident,
                                                      {'tags': [actor]})
                    elif r['rtype'] == 'env':
                        db.update_environment(r['name'] if kind == 'update'
                                              else ident,
                                              {'variables': {'by': actor}})
                    elif r['rtype'] == 'wb':
                        db.update_workbook(r['name'], {'tags': [actor]})
                    elif r['rtype'] == 'adef':
                        db.update_action_definition(ident,
                                                    {'tags': [actor]})
                    elif r['rtype'] == 'csrc':
                        db.update_code_source(ident, {'tags': [actor]})
                    elif r['rtype'] == 'dyn':
                        db.update_dynamic_action_definition(
                            ident, {'class_name': 'by-' + actor})
                    elif r['rtype'] == 'evt':
                        db.update_event_trigger(
                            ident, {'workflow_input': {'by': actor}})
                    elif r['rtype'] == 'cron':
                        db.update_cron_trigger(ident,
                                               {'remaining_executions': 7})
                    else:
                        db.update_workflow_execution(ident,
                                                     {'description': actor})
                rec['ok'] = True
            except Exception as e:
                rec['exc'] = type(e).__name__
                if mod and kind == 'update_by_id' and \
                        type(e).__name__ in DENIED:
                    rec['viol'] = ('C15.foreign_modify',
                                   'owner/admin %s cannot update %s %s: %s'
                                   % (actor, r['rtype'], r['name'],
                                      type(e).__name__))
            self._diff_check(actor, model, rec, before)
        elif kind in ('delete_by_id', 'delete'):
            before = self._admin_view()
            try:
                with db.transaction():
                    if r['rtype'] == 'wf':
                        db.delete_workflow_definition(r['id'])
                    elif r['rtype'] == 'env':
                        db.delete_environment(r['name'])
                    elif r['rtype'] == 'wb':
                        db.delete_workbook(r['name'])
                    elif r['rtype'] == 'adef':
                        db.delete_action_definition(r['id'])
                    elif r['rtype'] == 'csrc':
                        db.delete_code_source(r['id'])
                    elif r['rtype'] == 'dyn':
                        db.delete_dynamic_action_definition(r['id'])
                    elif r['rtype'] == 'evt':
                        db.delete_event_trigger(r['id'])
                    elif r['rtype'] == 'cron':
                        db.delete_cron_trigger(r['id'])
                    else:
                        db.delete_workflow_execution(r['id'])
                rec['ok'] = True
            except Exception as e:
                rec['exc'] = type(e).__name__
                if mod and type(e).__name__ in DENIED and \
                        r['rtype'] not in ('wf', 'env', 'wb'):
                    rec['viol'] = ('C15.foreign_modify',
                                   'owner/admin %s cannot delete %s %s: %s'
                                   % (actor, r['rtype'], r['name'],
                                      type(e).__name__))
            self._diff_check(actor, model, rec, before)
        elif kind == 'share':
            if r['rtype'] != 'wf' or r['scope'] != 'private':
                rec['ok'] = 'skip'
                return
            member = op['member']
            if member == r['owner']:
                member = [x for x in ('pa', 'pb', 'pc')
                          if x != r['owner']][op['target'] % 2]
            if op['target'] % 4 != 3 and r['owner'] != 'admin':
                # usually it is the owner who shares
                actor = r['owner']
                m.auth_ctx.set_ctx(self._ctx(actor))
            try:
                with db.transaction():
                    if actor != r['owner']:
                        # only the owner shares (the REST layer checks it);
                        # emulate the controller: it reads the workflow
                        # first
                        db.get_workflow_definition(r['id'])
                        if actor != 'admin':
                            raise RuntimeError('not owner')
                    db.create_resource_member({
                        'resource_id': r['id'], 'resource_type': 'workflow',
                        'member_id': proj[member],
                        'project_id': proj[r['owner']],
                        'status': 'pending'})
                model.members[(r['id'], member)] = 'pending'
                rec['ok'] = True
            except Exception as e:
                rec['exc'] = type(e).__name__
        elif kind == 'member_update':
            if r['rtype'] != 'wf':
                rec['ok'] = 'skip'
                return
            pend = sorted(k for k in model.members if k[0] == r['id'])
            if pend and op['target'] % 4 != 3:
                actor = pend[op['target'] % len(pend)][1]
                m.auth_ctx.set_ctx(self._ctx(actor))
            key = (r['id'], actor)
            try:
                with db.transaction():
                    db.update_resource_member(r['id'], 'workflow',
                                              proj.get(actor, actor),
                                              {'status': op['status']})
                rec['ok'] = True
                if key not in model.members:
                    rec['viol'] = ('C15.foreign_modify',
                                   '%s changed a membership it does not '
                                   'have' % actor)
                else:
                    model.members[key] = op['status']
            except Exception as e:
                rec['exc'] = type(e).__name__

    def _until(self, sim):
        if self.case['mode'] == 'engine':
            return super(Runner15, self)._until(sim)
        for t in sim.tasks:
            if t.state != 'done' and not t.daemon:
                return False
        return True

    def _collect(self):
        if self.case['mode'] == 'engine':
            super(Runner15, self)._collect()
            return
        res = self.res
        res.snap = observe.snapshot()
        res.labels = observe.Labels(res.snap, {})
        res.canon = {}
        res.extra['results'] = self.results
        allx = []
        for label, e in self.sim.task_errors:
            allx.append(('task', label, e, None))
        res.all_exceptions = allx
        res.foreign = [x for x in allx if not runner._is_mistral_exc(x[2])]
        res.world_info = {}


def execute(case):
    return Runner15(case).run()


def evaluate(case, res):
    out = []
    if case['mode'] == 'history':
        for r in res.extra['results']:
            if r.get('viol'):
                inv, msg = r['viol']
                out.append((inv, 'step %d %s by %s: %s' % (
                    r['i'], r['op']['op'], r['op']['actor'], msg),
                    'history %s %s' % (r['op']['op'], r['op']['rtype'])))
        for kind, where, e, tb in res.foreign:
            out.append(('C15.read_leak', 'history raised %s: %s' % (
                type(e).__name__, str(e)[:300]), 'history-exc'))
        return out
    snap = res.snap
    sig = progcase.tag_signature({'prog': {'workflows': []},
                                  'config': case['config']}, 'engine')
    # project attribution: every row under a root carries the root's project
    roots = {}
    for w in snap['wf'].values():
        if not w['task_execution_id']:
            roots[w['id']] = w['project_id']
    by_id = snap['wf']
    expected = {IDS['proj-a']: 'proj-a', IDS['proj-b']: 'proj-b'}
    for wid, p in roots.items():
        if wid in expected and p != expected[wid]:
            out.append(('C15.wrong_project',
                        'root execution started by %s belongs to %r' % (
                            expected[wid], p), sig))
    for w in snap['wf'].values():
        rid = w['root_execution_id'] or w['id']
        rp = (by_id.get(rid) or {}).get('project_id')
        if rp is not None and w['project_id'] != rp:
            out.append(('C15.wrong_project',
                        'execution %s of a %s root belongs to %r' % (
                            res.labels.any(w['id']), rp, w['project_id']),
                        sig))
    for t in snap['task'].values():
        w = by_id.get(t['workflow_execution_id'])
        if w and t['project_id'] != w['project_id']:
            out.append(('C15.wrong_project',
                        'task %s belongs to %r, its execution to %r' % (
                            res.labels.any(t['id']), t['project_id'],
                            w['project_id']), sig))
    for a in snap['action'].values():
        t = snap['task'].get(a['task_execution_id'])
        if t and a['project_id'] != t['project_id']:
            out.append(('C15.wrong_project',
                        'action %s belongs to %r, its task to %r' % (
                            res.labels.any(a['id']), a['project_id'],
                            t['project_id']), sig))
    # secrets and spies
    for table in ('wf', 'task', 'action'):
        for row in snap[table].values():
            p = row['project_id']
            other = 'proj-b' if p == 'proj-a' else 'proj-a'
            blob = json.dumps(dict((k, v) for k, v in row.items()
                                   if k not in ('spec',)), default=str)
            if 'SECRET-%s' % other in blob:
                out.append(('C15.read_leak',
                            'a %s row of %s contains the secret of %s' % (
                                table, p, other), sig))
    for t in snap['task'].values():
        if t['name'] != 'spy' or t['state'] != 'SUCCESS':
            continue
        pub = t['published'] or {}
        p = t['project_id']
        if pub.get('spy_execs'):
            out.append(('C15.read_leak',
                        'executions(<id of the other project>) evaluated by '
                        '%s returned %r' % (p, pub['spy_execs']), sig))
        if pub.get('spy_tasks'):
            out.append(('C15.read_leak',
                        'tasks(<execution of the other project>) evaluated '
                        'by %s returned %r' % (p, pub['spy_tasks']), sig))
        own = sum(1 for w in snap['wf'].values() if w['project_id'] == p)
        if isinstance(pub.get('spy_all'), int) and pub['spy_all'] > own:
            out.append(('C15.read_leak',
                        'executions() evaluated by %s saw %d executions, '
                        'the project only has %d' % (p, pub['spy_all'],
                                                     own), sig))
    for kind, where, e, tb in res.foreign:
        out.append(('C15.wrong_project', 'unexpected %s in %s: %s' % (
            type(e).__name__, where, str(e)[:200]),
            sig + ' ' + progcase.exc_signature(e)))
    return out


def nontrivial(case, res):
    if case['mode'] == 'history':
        return sum(1 for r in res.extra['results'] if r['ok'] is True) >= 4
    return len(set(w['project_id'] for w in res.snap['wf'].values())) >= 2


def case_digest(case, res):
    import hashlib
    h = hashlib.sha1(json.dumps(case.get('history') or [],
                                sort_keys=True).encode())
    h.update(res.sim.sig.digest())
    return h.hexdigest()


def probes(case, res):
    p = {'mode_' + case['mode']: 1}
    if case['mode'] == 'history':
        for r in res.extra['results']:
            k = 'h_%s_%s' % (r['op']['op'], 'ok' if r['ok'] is True else (
                'denied' if r['exc'] else 'skip'))
            p[k] = p.get(k, 0) + 1
    else:
        p['spy_done'] = sum(1 for t in res.snap['task'].values()
                            if t['name'] == 'spy' and
                            t['state'] == 'SUCCESS')
    return p


def shrink_candidates(case):
    if case['mode'] == 'history':
        h = case['history']
        for i in range(len(h) - 1, -1, -1):
            c = copy.deepcopy(case)
            del c['history'][i]
            yield c
