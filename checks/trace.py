"""Replays the committed change-capture trace of a run and evaluates history
oracles (C03 lifecycle, C04 join order, C07 with-items, ...)."""

import copy

from mistralsim import ref as refmod

WF = 'workflow_executions_v2'
TASK = 'task_executions_v2'
ACT = 'action_executions_v2'
TERMINAL = ('SUCCESS', 'ERROR', 'CANCELLED')
TASK_DONE = ('SUCCESS', 'ERROR', 'CANCELLED', 'SKIPPED')

WF_ALLOWED = {
    ('IDLE', 'RUNNING'),
    ('RUNNING', 'PAUSED'), ('RUNNING', 'SUCCESS'), ('RUNNING', 'ERROR'),
    ('RUNNING', 'CANCELLED'),
    ('PAUSED', 'RUNNING'), ('PAUSED', 'ERROR'), ('PAUSED', 'CANCELLED'),
}
WF_RERUN_ONLY = {('ERROR', 'RUNNING'), ('CANCELLED', 'RUNNING')}


class History(object):
    """Replays the committed events; iterate() yields after every commit
    with self.rows holding the committed row states at that moment."""

    def __init__(self, res):
        self.res = res
        self.rec = res.recorder
        self.rows = {WF: {}, TASK: {}, ACT: {}}

    def iterate(self):
        self.rows = {WF: {}, TASK: {}, ACT: {}}
        for cno, step, tlabel, evs in self.rec.commits:
            touched = {}
            for e in evs:
                tbl = self.rows.get(e.table)
                if tbl is None:
                    continue
                key = (e.table, e.id)
                if key not in touched:
                    touched[key] = copy.copy(tbl.get(e.id))
                if e.op == 'delete':
                    tbl.pop(e.id, None)
                    continue
                row = tbl.get(e.id)
                if row is None:
                    row = {'_created_commit': cno, '_created_step': step,
                           '_creator': tlabel, 'id': e.id}
                    tbl[e.id] = row
                row.update(e.vals)
            changes = []
            for (t, i), old in touched.items():
                changes.append((t, i, old, self.rows[t].get(i)))
            yield cno, step, tlabel, changes

    def label(self, table, id_):
        return self.res.labels.any(id_)


def had_late_route_reset(res):
    """True when a task execution that had already left WAITING was put
    back to WAITING by Task.defer (open finding F3)."""
    for e in res.recorder.events:
        if e.table == TASK and e.committed and \
                e.vals.get('state') == 'WAITING' and \
                e.old.get('state') not in (None, 'WAITING'):
            return True
    return False


def is_rerun_actor(label):
    return label.startswith('rpc:rerun_workflow') or \
        label.startswith('op:rerun') or label.startswith('op:skip')


# ------------------------------------------------------------------- C03
def lifecycle(case, res, hist=None):
    out = []
    rec = res.recorder
    lab = res.labels
    # (a) every single compare-and-swap on a workflow execution
    for e in rec.events:
        if e.table != WF or e.op != 'cas':
            continue
        old, new = e.old.get('state'), e.vals.get('state')
        if old == new:
            continue
        if (old, new) in WF_ALLOWED:
            continue
        if (old, new) in WF_RERUN_ONLY and is_rerun_actor(e.task):
            continue
        out.append(('C03.wf_transition',
                    'workflow execution %s moved %s -> %s in %s (step %d, '
                    'committed=%s)' % (lab.any(e.id), old, new, e.task,
                                       e.step, e.committed),
                    '%s->%s' % (old, new)))
    hist = hist or History(res)
    reran = set()       # wf ids touched by a rerun since they finished
    accepted_count = {}
    for cno, step, actor, changes in hist.iterate():
        for table, id_, old, new in changes:
            if new is None:
                continue
            if table == ACT:
                if old is not None and old.get('state') in TERMINAL:
                    if new.get('state') != old.get('state') or \
                            new.get('output') != old.get('output'):
                        out.append((
                            'C03.action_refinalised',
                            'action execution %s was %s and changed to %s '
                            '(output %r -> %r) by %s at step %d' % (
                                lab.any(id_), old.get('state'),
                                new.get('state'), old.get('output'),
                                new.get('output'), actor, step),
                            '%s->%s' % (old.get('state'), new.get('state'))))
                if (old is None or not old.get('accepted')) and \
                        new.get('accepted'):
                    accepted_count[id_] = accepted_count.get(id_, 0) + 1
                    if accepted_count[id_] > 1:
                        out.append((
                            'C03.action_refinalised',
                            'result of action execution %s accepted %d '
                            'times' % (lab.any(id_), accepted_count[id_]),
                            'accepted-twice'))
            elif table == TASK:
                if old is not None and old.get('state') == 'SUCCESS' and \
                        new.get('state') != 'SUCCESS':
                    sig = 'SUCCESS->%s' % new.get('state')
                    if new.get('state') == 'WAITING' and \
                            new.get('state_info') == 'Task is waiting.':
                        sig += ' reset_by_late_route'
                    out.append((
                        'C03.success_task_changed',
                        'task %s was SUCCESS and became %s by %s at step %d'
                        % (lab.any(id_), new.get('state'), actor, step),
                        sig))
            elif table == WF:
                if old is not None and old.get('state') in TERMINAL:
                    same = new.get('state') == old.get('state') and \
                        new.get('output') == old.get('output')
                    if same:
                        continue
                    if old.get('state') in ('ERROR', 'CANCELLED') and \
                            is_rerun_actor(actor):
                        # explicit rerun / skip (it may finish the
                        # execution again within the same transaction)
                        continue
                    out.append((
                        'C03.finished_wf_changed',
                        'execution %s was %s and changed to %s / output '
                        '%r -> %r by %s at step %d' % (
                            lab.any(id_), old.get('state'),
                            new.get('state'), old.get('output'),
                            new.get('output'), actor, step),
                        '%s->%s' % (old.get('state'), new.get('state'))))
    return out


# ------------------------------------------------------------------- C04
def _struct(case):
    """name -> (wf ast, RefRun used only for structural queries)."""
    prog = case['prog']
    out = {}
    for w in prog['workflows']:
        r = refmod.RefRun(prog, w, {}, None, None, 'x', {'wf': {},
                                                         'tasks': {}})
        out[w['name']] = (w, r)
        if prog.get('workbook'):
            out['%s.%s' % (prog['workbook'], w.get('short', w['name']))] = \
                (w, r)
    return out


def join_order(case, res, hist=None, allow_loops=False):
    out = []
    hist = hist or History(res)
    lab = res.labels
    struct = _struct(case)
    wf_name = {}           # wf_ex id -> definition name
    started = {}           # task id -> count of ->RUNNING from WAITING
    reset_by_route = set()
    for cno, step, actor, changes in hist.iterate():
        for table, id_, old, new in changes:
            if new is None:
                continue
            if table == WF and old is None:
                wf_name[id_] = new.get('name')
            if table != TASK:
                continue
            st_old = old.get('state') if old else None
            st_new = new.get('state')
            wname = wf_name.get(new.get('workflow_execution_id'))
            if wname not in struct:
                continue
            wf, rr = struct[wname]
            t = rr.tasks.get(new.get('name'))
            if t is None:
                continue
            if wf.get('type', 'direct') == 'reverse':
                if st_new == 'RUNNING' and st_old != 'RUNNING':
                    for req in t.get('requires') or []:
                        ok = any(
                            r.get('name') == req and
                            r.get('workflow_execution_id') ==
                            new.get('workflow_execution_id') and
                            r.get('state') == 'SUCCESS'
                            for r in hist_rows_at(hist, TASK))
                        if not ok:
                            out.append((
                                'C04.reverse_before_requires',
                                'task %s started at step %d before its '
                                'requirement %s succeeded' % (
                                    lab.any(id_), step, req), 'reverse'))
                continue
            if t.get('join') is None:
                continue
            if st_new == 'WAITING' and st_old not in (None, 'WAITING') and \
                    "'retry' policy" in (new.get('state_info') or ''):
                # documented: a retried join goes back to WAITING
                started[id_] = started.get(id_, 0) - 1
            elif st_new == 'WAITING' and st_old not in (None, 'WAITING') \
                    and (new.get('state_info') or '') == 'Task is waiting.':
                reset_by_route.add(id_)
            if st_new == 'RUNNING' and st_old in ('WAITING', None, 'IDLE'):
                started[id_] = started.get(id_, 0) + 1
                if started[id_] > 1 and not allow_loops:
                    out.append((
                        'C04.join_started_twice',
                        'join %s went WAITING->RUNNING %d times (step %d, '
                        '%s)%s' % (lab.any(id_), started[id_], step, actor,
                                   ' after a later inbound route put it '
                                   'back to WAITING'
                                   if id_ in reset_by_route else ''),
                        'reset_by_late_route' if id_ in reset_by_route
                        else 'twice'))
                # prerequisites at this commit
                ins = rr.inbound_specs(t['name'])
                routed = 0
                for r in hist.rows[TASK].values():
                    if r.get('workflow_execution_id') != \
                            new.get('workflow_execution_id'):
                        continue
                    if r.get('name') in ins and \
                            r.get('state') in TASK_DONE and \
                            t['name'] in [x[0] for x in
                                          (r.get('next_tasks') or [])]:
                        routed += 1
                jn = t['join']
                need = len(ins) if jn == 'all' else \
                    (1 if jn == 'one' else int(jn))
                if routed < need and started[id_] == 1:
                    out.append((
                        'C04.join_before_inbound',
                        'join %s (join: %s, %d inbound) started at step %d '
                        'with only %d inbound tasks completed and routed to '
                        'it' % (lab.any(id_), jn, len(ins), step, routed),
                        'early'))
    # one execution per join name and workflow execution
    seen = {}
    for id_, r in hist.rows[TASK].items():
        wname = wf_name.get(r.get('workflow_execution_id'))
        if wname not in struct:
            continue
        t = struct[wname][1].tasks.get(r.get('name'))
        if t is None or t.get('join') is None:
            continue
        key = (r.get('workflow_execution_id'), r.get('name'))
        seen[key] = seen.get(key, 0) + 1
    for (wid, name), n in seen.items():
        if n > 1:
            out.append(('C04.join_started_twice',
                        'join %s has %d task executions in %s' % (
                            name, n, lab.any(wid)), 'duplicate-row'))
    # joins left waiting in an unfinished workflow
    snap = res.snap
    for t in snap['task'].values():
        if t['state'] != 'WAITING':
            continue
        w = snap['wf'][t['workflow_execution_id']]
        if w['state'] in TERMINAL or w['state'] == 'PAUSED':
            continue
        out.append(('C04.join_not_failed',
                    'join %s is still WAITING at quiescence in %s execution '
                    '%s' % (lab.any(t['id']), w['state'], lab.any(w['id'])),
                    'waiting'))
    # action executions of a join never before it is RUNNING: covered by
    # the engine structure (actions are created in the same commit as the
    # RUNNING transition); checked through creation order
    return out


def hist_rows_at(hist, table):
    return hist.rows[table].values()


def reverse_set(case, res):
    """Reverse workflows: executed task set == closure of the target, one
    execution each."""
    out = []
    snap = res.snap
    lab = res.labels
    struct = _struct(case)
    for w in snap['wf'].values():
        if w['name'] not in struct:
            continue
        wf, rr = struct[w['name']]
        if wf.get('type', 'direct') != 'reverse':
            continue
        target = (w['params'] or {}).get('task_name') or wf.get('target')
        closure = set()

        def visit(n):
            if n in closure:
                return
            closure.add(n)
            for r in rr.tasks[n].get('requires') or []:
                visit(r)

        visit(target)
        names = [t['name'] for t in snap['task'].values()
                 if t['workflow_execution_id'] == w['id']]
        extra = set(names) - closure
        if extra:
            out.append(('C04.reverse_extra_task',
                        'tasks %s ran but target %s does not depend on them'
                        % (sorted(extra), target), 'extra'))
        dup = sorted(n for n in set(names) if names.count(n) > 1)
        if dup:
            out.append(('C04.reverse_extra_task',
                        'tasks %s have more than one execution' % dup,
                        'dup'))
    return out


def reset_by_route_ids(res):
    """ids of tasks that a later inbound route put back to WAITING
    (KNOWN_FINDINGS F3)."""
    out = set()
    hist = History(res)
    for cno, step, actor, changes in hist.iterate():
        for table, id_, old, new in changes:
            if table == TASK and new is not None and old is not None and \
                    new.get('state') == 'WAITING' and \
                    old.get('state') not in (None, 'WAITING') and \
                    (new.get('state_info') or '') == 'Task is waiting.':
                out.add(id_)
    return out
