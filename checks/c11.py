"""C11 - stop and cancel end the whole execution tree; late results change
nothing."""

import math
import random

from checks import c10
from checks import progcase
from checks import trace
from mistralsim import runner

PLAN = {
    'quick': {'runs': 3000, 'budget': 75},
    'thorough': {'runs': 100000, 'budget': 1100},
}
RULE = ('Generated programs (joins, with-items, retries, nested '
        'sub-workflows up to depth 3) with a stop request (SUCCESS, ERROR or '
        'CANCELLED, with a message) issued through REST at a seeded step on '
        'the root or on a nested execution, followed by the delivery of '
        'everything still in flight (late results, timers); ')
FEATS = progcase.CORE + ('with_items', 'concurrency', 'retry', 'subwf')
MSG = 'stopped-by-operator'


def make_case(seed, tier):
    rng = random.Random(seed)
    case, rng = progcase.program_case(
        seed, FEATS, max_tasks=rng.choice([3, 4, 5, 6]),
        p=rng.choice([0.3, 0.5]), rng=rng, force=('subwf',)
        if rng.random() < 0.6 else ())
    progcase.swarm_config(rng, case)
    progcase.avoid_known(case, rng)
    # no overlap windows (as in C10): a stop request overlapping the
    # handlers of another engine is the F38 family
    case['config']['overlap'] = 0.0
    state = rng.choice(['SUCCESS', 'ERROR', 'CANCELLED', 'CANCELLED'])
    case['ops'] = [{'op': 'stop', 'state': state, 'message': MSG,
                    'target': rng.choice(['root', 'root', 'sub:0', 'sub:1',
                                          'sub:2']),
                    'at_step': rng.randint(1, 160) if rng.random() < 0.4
                    else int(round(math.exp(rng.uniform(
                        math.log(3), math.log(120)))))}]
    if rng.random() < 0.25:
        # the tree (or a part of it) is paused before it is stopped
        stop = case['ops'][0]
        case['ops'].insert(0, {
            'op': 'pause',
            'target': rng.choice(['root', 'root', 'sub:0', 'sub:1']),
            'at_step': max(1, stop['at_step'] - rng.randint(1, 40))})
        stop['at_step'] += rng.choice([0, 5, 20])
    if rng.random() < 0.3:
        case['faults'] = [{'at_step': rng.randint(5, 150), 'kind': 'delay',
                           'method': 'on_action_complete',
                           'index': rng.randint(0, 3),
                           'seconds': rng.choice([5, 60])}]
    case['settle'] = 140
    return case


def execute(case):
    return runner.run_case(case)


def evaluate(case, res):
    out = []
    lab = res.labels
    snap = res.snap
    sig = progcase.tag_signature(case)
    hist = trace.History(res)
    stops = [o for o in res.ops_log if o['op']['op'] == 'stop']
    stopped_at = {}      # wf id -> (commit no, requested state)
    cancelled_tree = {}  # wf id -> commit no (descendants of a cancel)
    completions = {}
    state_at_ack = {}
    ack_commits = dict((o.get('done_commit'), o) for o in stops)
    for cno, step, actor, changes in hist.iterate():
        if (cno + 1) in ack_commits:
            o = ack_commits[cno + 1]
            w_ = hist.rows[trace.WF].get(o['target_id'])
            state_at_ack[o['target_id']] = (w_ or {}).get('state')
        for table, id_, old, new in changes:
            if new is None:
                continue
            if table == trace.WF and old is not None and \
                    actor.startswith('rpc:stop_workflow') and \
                    old.get('state') not in trace.TERMINAL and \
                    new.get('state') in trace.TERMINAL:
                stopped_at[id_] = (cno, new.get('state'))
            if table == trace.TASK and old is None:
                wid = new.get('workflow_execution_id')
                if wid in stopped_at and stopped_at[wid][0] < cno:
                    out.append((
                        'C11.task_created_after_stop',
                        'task %s created at step %d by %s in execution %s '
                        'stopped (%s) at commit %d' % (
                            lab.any(id_), step, actor, lab.any(wid),
                            stopped_at[wid][1], stopped_at[wid][0]), sig))
            if table == trace.TASK and old is not None and \
                    new.get('state') in trace.TASK_DONE and \
                    old.get('state') not in trace.TASK_DONE:
                completions[id_] = completions.get(id_, 0) + 1
    # state and message of the target
    for o in stops:
        if not o['result'] or o['result'][0] != 'ok':
            continue
        wid = o['target_id']
        w = snap['wf'].get(wid)
        if w is None:
            continue
        before = o.get('state_before')
        want = o['op']['state']
        if before in trace.TERMINAL:
            continue
        if wid not in stopped_at:
            # the request was accepted (HTTP 200) but had no effect
            at_ack = state_at_ack.get(wid, before)
            if at_ack in trace.TERMINAL:
                continue    # finished on its own before the stop ran
            extra = ' paused_failure_dropped' if at_ack == 'PAUSED' else ''
            if w['state'] != want:
                out.append(('C11.state_after_stop',
                            'stop(%s) of %s (%s before the call) was '
                            'acknowledged but the execution is %s' % (
                                want, lab.any(wid), before, w['state']),
                            sig + extra))
            continue
        if w['state'] != want or (w['state_info'] or '') != MSG:
            rer = any(e.task.startswith('rpc:rerun') for e in
                      res.recorder.events)
            if not rer:
                out.append(('C11.state_after_stop',
                            'execution %s stopped with %s/%r is finally '
                            '%s/%r' % (lab.any(wid), want, MSG, w['state'],
                                       (w['state_info'] or '')[:80]), sig))
        if want == 'CANCELLED':
            for d in c10.descendants(snap['wf'], snap['task'], wid):
                if d['state'] not in trace.TERMINAL:
                    out.append((
                        'C11.descendant_not_cancelled',
                        'execution %s was cancelled but its descendant %s '
                        'is %s at quiescence' % (lab.any(wid),
                                                 lab.any(d['id']),
                                                 d['state']), sig))
                else:
                    pt = snap['task'].get(d['task_execution_id'])
                    if pt and d['state'] == 'CANCELLED' and \
                            pt['state'] not in ('CANCELLED',) and \
                            not (pt['spec'] or {}).get('with-items') and \
                            not (pt['spec'] or {}).get('retry'):
                        out.append((
                            'C11.descendant_not_cancelled',
                            'sub-workflow %s is CANCELLED but its parent '
                            'task %s is %s' % (lab.any(d['id']),
                                               lab.any(pt['id']),
                                               pt['state']), sig))
            # nothing new below a cancelled execution afterwards: neither a
            # task nor a sub-workflow execution
            cno0 = stopped_at[wid][0]
            for cno, step, actor, changes in hist.iterate():
                if cno <= cno0:
                    continue
                for table, id_, old, new in changes:
                    if old is not None or new is None or \
                            table not in (trace.TASK, trace.WF):
                        continue
                    # walk up to see whether the new row hangs below wid
                    cur = new
                    tbl = table
                    hops = 0
                    under = False
                    while cur is not None and hops < 12:
                        hops += 1
                        if tbl == trace.TASK:
                            pw = cur.get('workflow_execution_id')
                            if pw == wid:
                                under = True
                                break
                            cur = hist.rows[trace.WF].get(pw)
                            tbl = trace.WF
                        else:
                            pt = cur.get('task_execution_id')
                            if not pt:
                                break
                            cur = hist.rows[trace.TASK].get(pt)
                            tbl = trace.TASK
                    if under and not (table == trace.TASK and
                                      new.get('workflow_execution_id')
                                      == wid):
                        # the task that was created (IDLE) before the
                        # cancel and whose start request was still in
                        # flight: open finding F37
                        tag = ' below'
                        top = new
                        if table == trace.TASK:
                            top = hist.rows[trace.WF].get(
                                new.get('workflow_execution_id')) or {}
                        chain = []
                        cur = top
                        while cur and cur.get('task_execution_id') and \
                                len(chain) < 12:
                            ptk = hist.rows[trace.TASK].get(
                                cur['task_execution_id']) or {}
                            chain.append(ptk)
                            cur = hist.rows[trace.WF].get(
                                ptk.get('workflow_execution_id'))
                        old_tasks = [p for p in chain if p.get(
                            '_created_commit', 1 << 30) <= cno0]
                        if old_tasks and actor.startswith('rpc:start_'):
                            tag += ' idle_task_started_after_cancel'
                        elif old_tasks:
                            # continuation of a task that existed before the
                            # cancel: next item of a with-items task, next
                            # attempt of a retried sub-workflow task
                            sp = (snap['task'].get(old_tasks[0].get('id'))
                                  or {}).get('spec') or {}
                            if sp.get('with-items'):
                                tag += ' with_items_continues_after_cancel'
                            owf = hist.rows[trace.WF].get(old_tasks[0].get(
                                'workflow_execution_id')) or {}
                            td_retry = any(
                                w.get('name') == owf.get('name') and
                                (w.get('task_defaults') or {}).get('retry')
                                for w in case['prog']['workflows'])
                            if sp.get('retry') or td_retry:
                                tag += ' retry_continues_after_cancel'
                        out.append((
                            'C11.task_created_after_stop',
                            '%s %s created at step %d by %s below '
                            'execution %s, which was cancelled at commit '
                            '%d' % ('task' if table == trace.TASK else
                                    'sub-workflow execution',
                                    lab.any(id_), step, actor,
                                    lab.any(wid), cno0), sig + tag))
    # a child reports to its parent exactly once
    resets = trace.reset_by_route_ids(res)
    for tid, n in completions.items():
        t = snap['task'].get(tid)
        if t and (t['spec'] or {}).get('workflow') and n > 1 and \
                not (t['spec'] or {}).get('retry'):
            out.append(('C11.reported_twice',
                        'parent task %s completed %d times' % (lab.any(tid),
                                                               n),
                        sig + (' reset_by_late_route' if tid in resets
                               else '')))
    # late results / timers must not change a stopped execution
    for inv, msg, s2 in trace.lifecycle(case, res, hist):
        if inv == 'C03.finished_wf_changed':
            out.append(('C11.late_result_changed_wf', msg, sig + ' ' + s2))
    return out


def nontrivial(case, res):
    return any(o['op']['op'] == 'stop' and o['result'] and
               o['result'][0] == 'ok' and
               o.get('state_before') not in trace.TERMINAL
               for o in res.ops_log)


def probes(case, res):
    p = {}
    for o in res.ops_log:
        r = o['result'] or ('none',)
        key = 'stop_%s_%s' % (o['op'].get('state'), r[0])
        p[key] = p.get(key, 0) + 1
        if (o['op'].get('target') or '').startswith('sub') and \
                r[0] == 'ok':
            p['stop_nested'] = p.get('stop_nested', 0) + 1
        if o.get('state_before') in trace.TERMINAL:
            p['stop_too_late'] = p.get('stop_too_late', 0) + 1
    p['cancelled_execs'] = sum(1 for w in res.snap['wf'].values()
                               if w['state'] == 'CANCELLED')
    return p


shrink_candidates = progcase.shrink_candidates
