"""C18 - the expiration policy deletes only what it is configured to delete."""

import datetime
import random

from checks import progcase
from mistralsim import core
from mistralsim import observe
from mistralsim import runner
from mistralsim import world

PLAN = {
    'quick': {'runs': 3000, 'budget': 60},
    'thorough': {'runs': 150000, 'budget': 900},
}
RULE = ('distinct = distinct (population, settings, interleaving) digest; '
        'Populations of 1-12 execution trees (states, ages, three projects, '
        'nesting up to depth 3, tasks and actions) written through the real '
        'db-api under the virtual clock, then the real '
        'run_execution_expiration_policy evaluated with every combination '
        'of older_than {unset, 1, n}, max_finished_executions {0, 1, n}, '
        'batch_size {0, 1, about the population} and ignored_states; one '
        'run in six evaluates the policy interleaved with a really running '
        'generated workflow (safety oracle only); ')
STATES = ['SUCCESS', 'ERROR', 'CANCELLED', 'RUNNING', 'PAUSED', 'IDLE']
TERMINAL = ('SUCCESS', 'ERROR', 'CANCELLED')


def gen_tree(rng, depth, idx):
    st = rng.choice(STATES if depth == 0 else
                    ['SUCCESS', 'ERROR', 'RUNNING', 'CANCELLED'])
    t = {'state': st, 'age': rng.choice([0, 0, 1, 1, 2, 5, 30, 90, 240]),
         'age_s': rng.choice([0, 0, 10, 59]),
         'project': rng.choice(['proj-a', 'proj-b', 'proj-c']),
         'tasks': []}
    for k in range(rng.choice([0, 1, 1, 2])):
        task = {'state': rng.choice(['SUCCESS', 'ERROR', 'RUNNING']),
                'actions': rng.choice([0, 1, 2]), 'subs': []}
        if depth < 2 and rng.random() < 0.3:
            task['subs'].append(gen_tree(rng, depth + 1, idx))
        t['tasks'].append(task)
    return t


def make_case(seed, tier):
    rng = random.Random(seed)
    case = runner.default_case()
    case['seed'] = seed
    c = case['config']
    c['scheduler_type'] = 'legacy'
    c['integrity_delay'] = -1
    c['executor_type'] = 'local'
    n = rng.randint(1, 12)
    case['trees'] = [gen_tree(rng, 0, i) for i in range(n)]
    older = rng.choice([None, None, 1, 3, 60])
    mfe = rng.choice([0, 0, 1, 2, 5])
    if older is None and mfe == 0:
        mfe = rng.choice([1, 3])
    case['settings'] = {
        'older_than': older,
        'max_finished_executions': mfe,
        'batch_size': rng.choice([0, 0, 1, 2, n]),
        'ignored_states': rng.choice([[], [], ['ERROR'], ['SUCCESS'],
                                      ['ERROR', 'CANCELLED'],
                                      ['SUCCESS', 'ERROR'],
                                      ['SUCCESS', 'ERROR', 'CANCELLED']]),
    }
    if rng.random() < 0.2:
        # storage fault: deleting one particular root execution fails
        # (lock wait timeout, cascade depth ...), always or the first k times
        cands = [i for i, t in enumerate(case['trees'])
                 if t['state'] in TERMINAL and
                 t['state'] not in case['settings']['ignored_states']]
        case['delete_fault'] = {
            'root': rng.choice(cands) if cands and rng.random() < 0.9
            else rng.randrange(n),
            'times': rng.choice([None, None, 1, 2])}
    case['now_offset'] = rng.choice([0, 0, 1, 30, 59])
    case['max_vtime'] = 36000.0 + 7200.0
    case['concurrent'] = rng.random() < 0.16
    if case['concurrent']:
        pc, _ = progcase.program_case(seed, progcase.CORE + ('subwf',),
                                      max_tasks=4, p=0.4)
        case['prog'] = pc['prog']
        case['defs'] = pc['defs']
        case['starts'] = pc['starts']
        case['outcome_seed'] = seed
        case['p_err'] = pc['p_err']
        case['passes_at'] = sorted(rng.choice([0.1, 0.5, 1, 2, 5])
                                   for _ in range(rng.randint(1, 3)))
        case['settings']['older_than'] = rng.choice([None, 1])
        case['settings']['max_finished_executions'] = rng.choice([1, 2])
    return case


class Runner18(runner.Runner):
    def setup(self):
        m = world.M
        sim = self.sim
        case = self.case
        self.created = {}      # label -> ids
        self.passes = []
        self.pass_errors = []
        self.patch = []
        self.fetches = 0
        self.delete_faults_fired = 0
        base_now = sim.now
        roots = []
        for i, tree in enumerate(case['trees']):
            roots.append(self._create_tree(tree, 'r%d' % i, None, None))
        # the policy is evaluated ten (virtual) hours after the epoch: the
        # trees above were last updated 0-240 minutes before that moment
        sim.set_now(core.EPOCH.replace(microsecond=0) +
                    datetime.timedelta(hours=10,
                                       seconds=case.get('now_offset', 0)))
        self._install_faults(roots)
        s = case['settings']
        for k, v in s.items():
            self.world._override(k, v, 'execution_expiration_policy')
        if case.get('concurrent'):
            super(Runner18, self).setup()
            for at in case['passes_at']:
                self._spawn_pass(at)
        else:
            self.pending_ops = []
            self.pending_faults = []
            self._spawn_pass(0)

    def _install_faults(self, roots):
        m = world.M
        case = self.case
        me = self
        n = max(1, len(case['trees']))
        limit = 6 * n + 30

        def counting(name):
            orig = getattr(m.db_api, name)

            def fetch(*a, **kw):
                me.fetches += 1
                if me.fetches > limit:
                    raise NoTermination(
                        '%d batches fetched for a population of %d root '
                        'executions' % (me.fetches, n))
                return orig(*a, **kw)

            me.patch.append((m.db_api, name, orig))
            setattr(m.db_api, name, fetch)

        counting('get_expired_executions')
        counting('get_superfluous_executions')
        df = case.get('delete_fault')
        if df:
            victim = roots[df['root'] % len(roots)]['id']
            left = [df.get('times')]
            orig_del = m.db_api.delete_workflow_execution

            def delete_workflow_execution(id, *a, **kw):
                if id == victim and (left[0] is None or left[0] > 0):
                    if left[0] is not None:
                        left[0] -= 1
                    me.delete_faults_fired += 1
                    me.sim.count('fault:delete_fails')
                    from oslo_db import exception as db_exc
                    raise db_exc.DBError('Lock wait timeout exceeded; try '
                                         'restarting transaction')
                return orig_del(id, *a, **kw)

            self.patch.append((m.db_api, 'delete_workflow_execution',
                               orig_del))
            m.db_api.delete_workflow_execution = delete_workflow_execution

    def unpatch(self):
        for obj, name, val in reversed(getattr(self, 'patch', [])):
            setattr(obj, name, val)
        self.patch = []
        sup = getattr(super(Runner18, self), 'unpatch', None)
        if sup:
            sup()

    def _create_tree(self, tree, label, parent_task_id, root_id):
        m = world.M
        sim = self.sim
        m.auth_ctx.set_ctx(world.user_ctx(tree['project']))
        try:
            upd_at = core.EPOCH.replace(microsecond=0) - datetime.timedelta(
                minutes=tree['age'], seconds=tree['age_s']) + \
                datetime.timedelta(hours=10)
            with m.db_api.transaction():
                m.timeutils.set_time_override(
                    upd_at - datetime.timedelta(seconds=30))
                wid = m.ml_utils.generate_unicode_uuid()
                wf = m.db_api.create_workflow_execution({
                    'id': wid, 'name': 'synthetic', 'workflow_name':
                    'synthetic', 'spec': {}, 'state': 'IDLE', 'output': {},
                    'input': {}, 'params': {}, 'context': {},
                    'runtime_context': {},
                    'task_execution_id': parent_task_id,
                    'root_execution_id': root_id})
            with m.db_api.transaction():
                m.timeutils.set_time_override(upd_at)
                wf = m.db_api.get_workflow_execution(wid)
                wf.state = tree['state']
                wf.state_info = 'x'
            node = {'id': wid, 'label': label, 'tree': tree, 'tasks': [],
                    'updated_at': upd_at}
            for ti, task in enumerate(tree['tasks']):
                with m.db_api.transaction():
                    tid = m.ml_utils.generate_unicode_uuid()
                    m.db_api.create_task_execution({
                        'id': tid, 'name': 't%d' % ti,
                        'workflow_execution_id': wid,
                        'workflow_name': 'synthetic', 'state': task['state'],
                        'spec': {}, 'in_context': {}, 'published': {},
                        'runtime_context': {}, 'type': 'ACTION'})
                    aids = []
                    for ai in range(task['actions']):
                        aid = m.ml_utils.generate_unicode_uuid()
                        m.db_api.create_action_execution({
                            'id': aid, 'name': 'std.noop',
                            'task_execution_id': tid, 'state': 'SUCCESS',
                            'input': {}, 'runtime_context': {'index': ai},
                            'is_sync': True})
                        aids.append(aid)
                tnode = {'id': tid, 'actions': aids, 'subs': []}
                for si, sub in enumerate(task['subs']):
                    sub = dict(sub, project=tree['project'])
                    tnode['subs'].append(self._create_tree(
                        sub, '%s/t%d/s%d' % (label, ti, si), tid,
                        root_id or wid))
                    m.auth_ctx.set_ctx(world.user_ctx(tree['project']))
                node['tasks'].append(tnode)
            if parent_task_id is None:
                self.created[label] = node
            return node
        finally:
            m.auth_ctx.set_ctx(None)
            m.timeutils.set_time_override(self.sim.now)

    def _spawn_pass(self, at):
        m = world.M
        sim = self.sim
        me = self

        def run_pass():
            if at:
                sim.sleep(at)
            before = me._ids()
            ctx = m.auth_ctx.MistralContext(
                user_id=None, project_id=None, auth_token=None,
                is_admin=True)
            m.auth_ctx.set_ctx(ctx)
            err = None
            f0 = me.delete_faults_fired
            me.fetches = 0
            try:
                m.expiration_policy.run_execution_expiration_policy(None,
                                                                    ctx)
            except NoTermination as e:
                err = e
                me.pass_errors.append(e)
            except Exception as e:
                err = e
                me.pass_errors.append(e)
            finally:
                m.auth_ctx.set_ctx(None)
                # a failed pass must not leave its transaction open
                if m.db_base._get_thread_local_session() is not None:
                    try:
                        m.db_base.end_tx()
                    except Exception:
                        pass
            me.passes.append({'before': before, 'after': me._ids(),
                              'now': sim.now, 'error': err,
                              'delete_faults': me.delete_faults_fired - f0})

        sim.spawn('expiration', run_pass, node=self.world.api_node,
                  kind='periodic')

    def _ids(self):
        """(id -> (state, task_execution_id, updated_at, project)) of all
        workflow executions, read atomically."""
        m = world.M
        from sqlalchemy import text
        out = {}
        with m.db_api.transaction(read_only=True):
            ses = m.db_base._get_thread_local_session()
            for r in ses.execute(text(
                    'SELECT id, state, task_execution_id, updated_at, '
                    'project_id, root_execution_id FROM '
                    'workflow_executions_v2')).fetchall():
                out[r[0]] = {'state': r[1], 'parent_task': r[2],
                             'updated_at': r[3], 'project': r[4],
                             'root': r[5]}
            tasks = dict((r[0], r[1]) for r in ses.execute(text(
                'SELECT id, workflow_execution_id FROM task_executions_v2'))
                .fetchall())
            acts = dict((r[0], r[1]) for r in ses.execute(text(
                'SELECT id, task_execution_id FROM action_executions_v2'))
                .fetchall())
        return {'wf': out, 'task': tasks, 'action': acts}

    def on_idle_no_workflows(self, sim):
        return True

    def _until(self, sim):
        if not self.case.get('concurrent'):
            for t in sim.tasks:
                if t.state != 'done' and not t.daemon:
                    return False
            return True
        return super(Runner18, self)._until(sim)

    def _collect(self):
        res = self.res
        if self.case.get('concurrent'):
            super(Runner18, self)._collect()
        else:
            res.snap = observe.snapshot()
            res.labels = observe.Labels(res.snap, {})
            res.canon = {}
            allx = []
            for label, e in self.sim.task_errors:
                allx.append(('task', label, e, None))
            for step, tlabel, logger, msg, e in self.world.swallowed:
                allx.append(('logged', '%s %s: %s' % (tlabel, logger,
                                                      msg[:80]), e, None))
            res.all_exceptions = allx
            res.foreign = [x for x in allx
                           if not runner._is_mistral_exc(x[2])]
            res.world_info = {}
        res.extra['passes'] = self.passes
        res.extra['created'] = self.created
        res.extra['final'] = self._ids()


class NoTermination(BaseException):
    pass


def execute(case):
    r = Runner18(case)
    try:
        return r.run()
    finally:
        r.unpatch()


def _parse(ts):
    if isinstance(ts, datetime.datetime) or ts is None:
        return ts
    for fmt in ('%Y-%m-%d %H:%M:%S.%f', '%Y-%m-%d %H:%M:%S'):
        try:
            return datetime.datetime.strptime(ts, fmt)
        except ValueError:
            pass
    return None


def evaluate(case, res):
    out = []
    s = case['settings']
    sig = 'older_%s mfe_%s batch_%s ign_%s%s' % (
        s['older_than'], s['max_finished_executions'], s['batch_size'],
        '+'.join(s['ignored_states']) or 'none',
        ' concurrent' if case.get('concurrent') else '')
    ignored = set(s['ignored_states'])
    for p in res.extra['passes']:
        if isinstance(p['error'], NoTermination):
            out.append(('C18.pass_failed',
                        'evaluation does not terminate: %s (%d failing '
                        'deletes injected)' % (p['error'],
                                               p.get('delete_faults', 0)),
                        sig + ' no_termination'))
        elif p['error'] is not None and p.get('delete_faults'):
            # a delete failed because of the injected storage fault: the
            # evaluation may give up with an error (its open batch is rolled
            # back); safety and completeness below still apply
            continue
        elif p['error'] is not None:
            out.append(('C18.pass_failed',
                        'evaluation raised %s: %s' % (
                            type(p['error']).__name__, str(p['error'])[:200]),
                        sig + ' ' + progcase.exc_signature(p['error'])))
    for kind, where, e, tb in res.foreign:
        if 'expiration' in where or 'expiration_policy' in str(tb or ''):
            out.append(('C18.pass_failed',
                        '%s in %s: %s' % (type(e).__name__, where,
                                          str(e)[:200]),
                        sig + ' ' + progcase.exc_signature(e)))
    if out:
        return out
    # concurrent mode: an execution may finish while the pass is under way,
    # so what counts is its last committed state (= the state the deleting
    # transaction saw), not the snapshot taken before the pass
    last_state = {}
    if case.get('concurrent') and res.recorder is not None:
        from checks import trace
        for cno, step, actor, changes in trace.History(res).iterate():
            for table, id_, old, new in changes:
                if table == trace.WF and new is not None and \
                        new.get('state'):
                    last_state[id_] = new['state']
    for p in res.extra['passes']:
        before, after = p['before'], p['after']
        now = p['now']
        deleted = set(before['wf']) - set(after['wf'])
        # ---- safety (both modes)
        for wid in deleted:
            w = before['wf'][wid]
            if wid in last_state:
                w = dict(w, state=last_state[wid])
            if w['parent_task'] is None:
                if w['state'] not in TERMINAL or w['state'] in ignored:
                    out.append(('C18.deleted_ineligible',
                                'root execution in state %s was deleted' %
                                w['state'], sig))
            else:
                # a sub-execution may only go together with its root
                root = w['root']
                r = wid
                seen = 0
                while before['wf'][r]['parent_task'] is not None and \
                        seen < 10:
                    r = before['task'].get(before['wf'][r]['parent_task'])
                    seen += 1
                    if r is None or r not in before['wf']:
                        break
                if r is not None and r in after['wf']:
                    out.append(('C18.deleted_ineligible',
                                'a sub-execution was deleted while its root '
                                'execution survives', sig))
        # ---- tree completeness of what remains
        for wid, w in after['wf'].items():
            if w['parent_task'] is not None and \
                    w['parent_task'] not in after['task']:
                out.append(('C18.broken_tree',
                            'sub-execution left without its parent task',
                            sig))
        for tid, wid in after['task'].items():
            if wid not in after['wf']:
                out.append(('C18.broken_tree',
                            'task execution left without its workflow '
                            'execution', sig))
        for aid, tid in after['action'].items():
            if tid is not None and tid not in after['task']:
                out.append(('C18.broken_tree',
                            'action execution left without its task', sig))
        for wid in after['wf']:
            if wid in before['wf']:
                # surviving executions keep all their rows
                lost = [t for t, w2 in before['task'].items()
                        if w2 == wid and t not in after['task']]
                if lost and not case.get('concurrent'):
                    out.append(('C18.broken_tree',
                                'a surviving execution lost %d task rows'
                                % len(lost), sig))
        if out:
            return out
        # ---- order: never a newer eligible deleted while an older one stays
        elig_before = dict(
            (wid, w) for wid, w in before['wf'].items()
            if w['parent_task'] is None and w['state'] in TERMINAL and
            w['state'] not in ignored)
        if case.get('concurrent') or p.get('delete_faults'):
            continue
        # ---- exact model
        exp_time = None
        if s['older_than'] is not None:
            exp_time = now - datetime.timedelta(minutes=s['older_than'])
        survivors = dict(elig_before)
        if exp_time is not None:
            for wid, w in list(survivors.items()):
                u = _parse(w['updated_at'])
                if u is not None and u < exp_time:
                    del survivors[wid]
        mfe = s['max_finished_executions']
        if mfe:
            ordered = sorted(survivors.items(),
                             key=lambda kv: _parse(kv[1]['updated_at']),
                             reverse=True)
            keep = ordered[:mfe]
            survivors = dict(keep)
        model_ts = sorted(str(_parse(w['updated_at']))
                          for w in survivors.values())
        real = dict((wid, w) for wid, w in elig_before.items()
                    if wid in after['wf'])
        real_ts = sorted(str(_parse(w['updated_at'])) for w in real.values())
        if model_ts != real_ts:
            kept_extra = len(real_ts) > len(model_ts)
            out.append((
                'C18.kept_eligible' if kept_extra else
                'C18.deleted_ineligible',
                'finished root executions surviving the pass have '
                'timestamps %s, the configured policy leaves %s (now=%s, '
                'population %s)' % (real_ts, model_ts, now,
                                    sorted((w['state'],
                                            str(w['updated_at']))
                                           for w in elig_before.values())),
                sig))
    return out


def nontrivial(case, res):
    ps = res.extra.get('passes') or []
    return any(set(p['before']['wf']) - set(p['after']['wf']) for p in ps)


def probes(case, res):
    ps = res.extra.get('passes') or []
    return {
        'deleted_roots': sum(
            len([w for w in (set(p['before']['wf']) - set(p['after']['wf']))
                 if p['before']['wf'][w]['parent_task'] is None])
            for p in ps),
        'deleted_subs': sum(
            len([w for w in (set(p['before']['wf']) - set(p['after']['wf']))
                 if p['before']['wf'][w]['parent_task'] is not None])
            for p in ps),
        'older_than_unset': int(case['settings']['older_than'] is None),
        'concurrent': int(bool(case.get('concurrent'))),
        'passes': len(ps),
        'delete_faults': sum(p.get('delete_faults', 0) for p in ps),
        'all_states_ignored': int(len(case['settings']['ignored_states'])
                                  == 3),
    }


def shrink_candidates(case):
    import copy
    for i in range(len(case['trees'])):
        if len(case['trees']) > 1:
            c = copy.deepcopy(case)
            del c['trees'][i]
            yield c
    for i, t in enumerate(case['trees']):
        if t['tasks']:
            c = copy.deepcopy(case)
            c['trees'][i]['tasks'] = []
            yield c


def case_digest(case, res):
    """distinct = distinct (population, settings, interleaving)"""
    import hashlib
    import json
    h = hashlib.sha1(json.dumps([case['trees'], case['settings']],
                                sort_keys=True).encode())
    h.update(res.sim.sig.digest())
    return h.hexdigest()
