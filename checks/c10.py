"""C10 - pause creates no new tasks; resume continues to the same result."""

import copy
import hashlib
import random

from checks import c02
from checks import progcase
from checks import trace
from mistralsim import gen
from mistralsim import observe
from mistralsim import ref
from mistralsim import runner

PLAN = {
    'quick': {'runs': 2000, 'budget': 75},
    'thorough': {'runs': 80000, 'budget': 1100},
}
RULE = ('Each evaluation = one generated schedule-independent program '
        '(joins, retries, with-items, sub-workflows, pause command, '
        'pause-before) run once undisturbed and once with 1-2 pause/resume '
        'pairs issued through REST at seeded steps on the root or a nested '
        'execution; ')
FEATS = progcase.CORE + ('with_items', 'concurrency', 'retry', 'subwf')


def add_pause_constructs(rng, case):
    prog = case['prog']
    changed = False
    for w in prog['workflows'][:1]:
        for t in w['tasks']:
            if rng.random() < 0.12 and t.get('on_success'):
                t['on_success'].insert(
                    rng.randint(0, len(t['on_success'])), {'to': 'pause'})
                changed = True
            elif rng.random() < 0.08 and t.get('join') is None:
                t['pause_before'] = True
                changed = True
    if changed:
        case['defs'] = gen.render_program(prog)
    return changed


def orphan_case(seed, rng):
    """A sub-workflow that outlives its parent task: the task is failed by
    its timeout (the error is handled), the sub-workflow goes on, and the
    root is paused while it still runs."""
    to = rng.choice([2, 3])
    sub = {'name': 'sub1', 'short': 'sub1', 'type': 'direct', 'lang': 'yaql',
           'path_input': True, 'input': [{'x': 1}],
           'tasks': [{'name': 'c0', 'body': {'kind': 'sync'},
                      'on_success': [{'to': 'c1'}]},
                     {'name': 'c1', 'body': {'kind': 'sync'}}]}
    main = {'name': 'main', 'short': 'main', 'type': 'direct',
            'lang': 'yaql', 'path_input': False, 'input': [{'x': 1}],
            'tasks': [{'name': 't0', 'body': {'kind': 'wf', 'wf': 'sub1',
                                              'input': {}},
                       'timeout': to, 'on_error': [{'to': 't1'}]},
                      {'name': 't1', 'body': {'kind': 'async'}}]}
    if rng.random() < 0.5:
        main['tasks'].append({'name': 't2', 'body': {'kind': 'sync'}})
    prog = {'workflows': [main, sub], 'workbook': None}
    case = runner.default_case()
    case['seed'] = seed
    case['prog'] = prog
    case['feats'] = ['subwf', 'timeout']
    case['defs'] = gen.render_program(prog)
    case['starts'] = [{'wf': 'main', 'input': {'x': 1}, 'params': {}}]
    case['outcome_seed'] = seed
    case['p_err'] = 0.0
    long_ = rng.choice([8, 12, 20])
    case['body_delays'] = {'main.t0.c0': long_}
    case['async_delays'] = {'main.t1': long_ + rng.choice([0, 5, 30])}
    progcase.swarm_config(rng, case)
    case['config']['subwf_via_rpc'] = False
    case['config']['overlap'] = 0.0
    t_pause = to + 1 + rng.random() * (long_ - to - 2)
    case['ops'] = [{'op': 'pause', 'target': 'root',
                    'at_time': round(t_pause, 2)},
                   {'op': 'resume', 'target': 'root',
                    'at_time': round(t_pause + rng.choice([1, 4, 15]), 2)}]
    case['auto_resume'] = 8
    case['base_ops'] = []
    case['settle'] = 30
    case['kind'] = 'orphan_subwf'
    return case


def make_case(seed, tier):
    rng = random.Random(seed)
    if rng.random() < 0.07:
        return orphan_case(seed, rng)
    for attempt in range(30):
        case, rng2 = progcase.program_case(
            seed * 41 + attempt, FEATS, max_tasks=rng.choice([3, 4, 5, 6]),
            p=rng.choice([0.3, 0.5]), p_err_choices=(0.0, 0.2))
        rr, _ = progcase.reference(case)
        if rr.exact and not rr.racy_tasks and rr.state != 'NOT_CREATED':
            break
    case['seed'] = seed
    progcase.swarm_config(rng, case)
    progcase.avoid_known(case, rng, p_keep=0.03)
    case['config']['subwf_via_rpc'] = False
    # no overlap windows here: a pause request overlapping the handlers of
    # another engine is the F38 family (see C03 / C06), and every oracle of
    # this check would report its consequences
    case['config']['overlap'] = 0.0
    has_pause = add_pause_constructs(rng, case) \
        if rng.random() < 0.3 else False
    ops = []
    for _ in range(rng.choice([1, 1, 2])):
        a = rng.randint(1, 150)
        b = a + rng.randint(1, 120)
        tgt = rng.choice(['root', 'root', 'root', 'sub:0', 'sub:1'])
        if len(case['prog']['workflows']) < 2 and rng.random() < 0.9:
            tgt = 'root'
        p_op = {'op': 'pause', 'target': tgt, 'at_step': a}
        r_op = {'op': 'resume', 'target': 'root' if rng.random() < 0.6
                else tgt, 'at_step': b}
        if rng.random() < 0.75:
            # position relative to the length of the undisturbed run (it is
            # executed first), so that most pauses land inside the run
            p_op['at_frac'] = round(rng.uniform(0.03, 0.97), 3)
            r_op['after'] = rng.choice([1, 3, 10, 30, 90])
        ops.append(p_op)
        ops.append(r_op)
    # a final resume on the root so that nothing stays paused
    case['auto_resume'] = 8
    case['ops'] = ops
    case['base_ops'] = []
    case['settle'] = 30
    return case


def execute(case):
    scheds = None
    if isinstance(case.get('schedule'), dict):
        scheds = case['schedule']['multi']
    runs = []
    for i, ops in enumerate([case.get('base_ops') or [], case['ops']]):
        c = dict(case)
        if i == 1 and runs[0].sim is not None:
            # length of the undisturbed run = step of its last state change
            # (what follows is settling time)
            n = 0
            for e in runs[0].recorder.events:
                if e.committed and 'state' in e.vals:
                    n = max(n, e.step)
            n = n or runs[0].sim.step
            ops = copy.deepcopy(ops)
            last = 0
            for o in ops:
                if o.get('at_frac') is not None:
                    o['at_step'] = last = max(1, int(o['at_frac'] * n))
                elif o.get('after') is not None:
                    o['at_step'] = last + o['after']
        c['ops'] = ops
        c['schedule'] = scheds[i] if scheds else None
        runs.append(runner.Runner(c).run())
    base, paused = runs
    out = paused
    out.extra['base'] = base
    out.extra['multi_schedule'] = [
        [list(x) for x in r.sim.schedule] if r.sim else [] for r in runs]
    out.extra['multi_digest'] = hashlib.sha1('|'.join(
        r.sim.log_digest() if r.sim else '' for r in runs).encode()
    ).hexdigest()
    if base.status != 'ok' and out.status == 'ok':
        out.status = base.status
        out.reason = 'baseline: ' + base.reason
    return out


def descendants(rows_wf, rows_task, wid):
    res = []
    tids = set(t['id'] for t in rows_task.values()
               if t.get('workflow_execution_id') == wid)
    for w in rows_wf.values():
        if w.get('task_execution_id') in tids:
            res.append(w)
            res.extend(descendants(rows_wf, rows_task, w['id']))
    return res


def evaluate(case, res):
    out = []
    lab = res.labels
    sig = progcase.tag_signature(case)
    hist = trace.History(res)
    paused_before = set()
    acked_targets = set()
    for o in res.ops_log:
        if o['op']['op'] == 'pause' and o['result'] and \
                o['result'][0] == 'ok' and o['result'][1] == 'PAUSED':
            acked_targets.add(o['target_id'])
    ncommit = 0
    for cno, step, actor, changes in hist.iterate():
        ncommit = cno + 1
        # task rows created inside an execution that is and stays PAUSED
        for table, id_, old, new in changes:
            if table == trace.TASK and old is None and new is not None:
                wid = new.get('workflow_execution_id')
                w = hist.rows[trace.WF].get(wid) or {}
                if wid in paused_before and w.get('state') == 'PAUSED':
                    out.append((
                        'C10.task_created_while_paused',
                        'task %s was created at step %d by %s while '
                        'execution %s was PAUSED' % (
                            lab.any(id_), step, actor, lab.any(wid)), sig))
        paused_before = set(i for i, w in hist.rows[trace.WF].items()
                            if w.get('state') == 'PAUSED')
        # the pause transaction itself: the target and every unfinished
        # descendant that exists at that moment are PAUSED when it commits
        # (tasks created before the pause may still start afterwards,
        # including their sub-workflows)
        if actor.startswith('rpc:pause_workflow'):
            for table, id_, old, new in changes:
                if table != trace.WF or new is None or old is None:
                    continue
                if new.get('state') != 'PAUSED' or \
                        old.get('state') == 'PAUSED':
                    continue
                if id_ not in acked_targets:
                    continue
                bad = []
                for d in descendants(hist.rows[trace.WF],
                                     hist.rows[trace.TASK], id_):
                    if d.get('state') not in ('PAUSED',) + trace.TERMINAL:
                        bad.append((lab.any(d['id']), d.get('state')))
                if bad:
                    out.append((
                        'C10.not_paused_after_ack',
                        'pause of %s committed at step %d but %s' % (
                            lab.any(id_), step, bad), sig))
    if out:
        return out
    if case.get('kind') == 'orphan_subwf':
        # timers make the final record time-dependent: online oracles, and
        # "after resume the run continues": it is not left PAUSED for good
        # with every resume request refused
        stuck = [lab.any(w['id']) for w in res.snap['wf'].values()
                 if w['state'] == 'PAUSED']
        refused = [o for o in res.ops_log if o['op']['op'] == 'resume' and
                   o['result'] and o['result'][0] == 'http']
        if stuck and refused:
            out.append(('C10.differs_from_unpaused',
                        'executions %s are still PAUSED at the end, %d '
                        'resume requests were refused: %s' % (
                            stuck, len(refused),
                            str(refused[0]['result'])[:200]),
                        sig + ' orphan_subwf resume_rolled_back'))
        return out
    # final: same record as the undisturbed run / the reference
    rr, rrec = progcase.reference(case)
    res.extra['ref_exact'] = rr.exact and not rr.racy_tasks
    if not res.extra['ref_exact'] or rr.state == 'NOT_CREATED':
        return out
    base = res.extra['base']
    a = c02.masked(base.canon, rrec)
    b = c02.masked(res.canon, rrec)
    for c in (a, b):
        for t in c['tasks'].values():
            t.pop('state_info_class', None)
        for w in c['wf'].values():
            w.pop('state_info_class', None)
    # a task started twice: IDLE at the time of a resume, two start_task
    # handlers created an action execution each
    extra = ''
    starts = {}
    for e in res.recorder.events:
        if e.op == 'insert' and e.committed and \
                e.table in (trace.ACT, trace.WF) and \
                e.vals.get('task_execution_id') and \
                e.task.startswith('rpc:start_task'):
            key = (e.vals.get('task_execution_id'),
                   (e.vals.get('runtime_context') or {}).get('index'))
            starts.setdefault(key, set()).add(e.task)
    touched = {}
    for e in res.recorder.events:
        if e.committed and e.table == trace.TASK and \
                e.task.startswith('rpc:start_task') and \
                (e.op == 'cas' or e.vals):
            touched.setdefault(e.id, set()).add(e.task)
    if any(len(v) > 1 for v in starts.values()) or \
            any(len(v) > 1 for v in touched.values()):
        extra = ' double_start_after_resume'
    # a resume request that failed (and was rolled back) because the
    # commands of a task completed during the pause could not be processed
    for step, mlabel, node, e, tb in res.extra.get('handler_exc', []):
        if 'resume_workflow' in mlabel:
            extra += ' resume_rolled_back'
            break
    # a task force-failed (structural error) while its execution was PAUSED
    paused_now = set()
    for cno, step, actor, changes in hist.iterate():
        for table, id_, old, new in changes:
            if table == trace.TASK and new is not None and old is not None \
                    and new.get('state') == 'WAITING' and \
                    old.get('state') not in (None, 'WAITING') and \
                    new.get('state_info') == 'Task is waiting.' and \
                    'reset_by_late_route' not in extra:
                extra += ' reset_by_late_route'
            if table == trace.TASK and new is not None and \
                    new.get('state') == 'ERROR' and \
                    'Failed to' in (new.get('state_info') or '') and \
                    new.get('workflow_execution_id') in paused_now and \
                    (hist.rows[trace.WF].get(
                        new.get('workflow_execution_id')) or {}).get(
                            'state') == 'PAUSED':
                extra += ' paused_failure_dropped'
        paused_now = set(i for i, w in hist.rows[trace.WF].items()
                         if w.get('state') == 'PAUSED')
    if observe.canon_json(a) != observe.canon_json(b):
        out.append(('C10.differs_from_unpaused',
                    'paused/resumed run differs from the undisturbed run: '
                    '%s' % c02.first_diff(a, b), sig + extra))
        return out
    diffs = ref.compare(rr, rrec, res.canon, 'data')
    if diffs:
        out.append(('C10.differs_from_unpaused',
                    'paused/resumed run differs from the reference: %s'
                    % '; '.join(diffs[:4]), sig + ' vs-ref' + extra))
    return out


def nontrivial(case, res):
    return any(o['op']['op'] == 'pause' and o['result'] and
               o['result'][0] == 'ok' and o['result'][1] == 'PAUSED'
               for o in res.ops_log)


def probes(case, res):
    p = {'pause_acked': 0, 'pause_too_late': 0, 'resume_ok': 0,
         'pause_nested': 0}
    for o in res.ops_log:
        r = o['result'] or ('none',)
        if o['op']['op'] == 'pause':
            if r[0] == 'ok' and r[1] == 'PAUSED':
                p['pause_acked'] += 1
                if (o['op'].get('target') or '').startswith('sub'):
                    p['pause_nested'] += 1
            else:
                p['pause_too_late'] += 1
        elif r[0] == 'ok':
            p['resume_ok'] += 1
    p['ref_exact'] = int(bool(res.extra.get('ref_exact')))
    p['orphan_subwf'] = int(case.get('kind') == 'orphan_subwf')
    p['backlog_used'] = int(any(
        e.table == trace.WF and e.committed and
        'backlog_commands' in (e.vals.get('runtime_context') or {})
        for e in res.recorder.events))
    return p


def shrink_candidates(case):
    ops = case.get('ops') or []
    for c in progcase.shrink_candidates(case):
        yield c
