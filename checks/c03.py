"""C03 - execution lifecycle is respected and finished results are final."""

import random

from checks import progcase
from checks import trace
from mistralsim import runner

PLAN = {
    'quick': {'runs': 4000, 'budget': 75},
    'thorough': {'runs': 150000, 'budget': 1100},
}
RULE = ('Generated programs plus 0-5 operator commands (pause, resume, stop '
        'with each state, rerun, skip, external action-execution updates) issued at seeded steps through the '
        'engine API, duplicated and delayed result messages; ')
FEATS = progcase.CORE + ('with_items', 'concurrency', 'retry', 'subwf',
                         'partial_joins')
ASSUMPTIONS = ['operator commands go through the real REST controllers '
               '(pecan test app, auth disabled) in 85% of the runs and '
               'directly through EngineClient in the rest']
REAL = ['mistral.api.controllers.v2 (execution, task, action_execution) '
        'through pecan.testing.load_test_app']


def gen_ops(rng, n_max=5, horizon=200, kinds=None):
    kinds = kinds or ['pause', 'resume', 'stop', 'rerun', 'skip', 'stop',
                      'resume', 'action_update', 'action_update']
    ops = []
    for _ in range(rng.randint(0, n_max)):
        k = rng.choice(kinds)
        op = {'op': k, 'at_step': rng.randint(1, horizon)}
        if k in ('pause', 'resume', 'stop'):
            op['target'] = rng.choice(['root', 'root', 'sub:0', 'sub:1'])
        if k == 'stop':
            op['state'] = rng.choice(['SUCCESS', 'ERROR', 'CANCELLED'])
            op['message'] = 'stopped-by-operator'
        if k in ('rerun', 'skip'):
            op['target'] = {'state': rng.choice(['ERROR', 'ERROR', 'ERROR',
                                                 'SUCCESS', 'RUNNING']),
                            'index': rng.randint(0, 3)}
            op['reset'] = rng.random() < 0.5
        if k == 'action_update':
            # external completion / pause / resume of an action execution
            # (PUT /v2/action_executions/<id>), also of one that finished
            op['target'] = {'state': rng.choice(['RUNNING', 'RUNNING',
                                                 'SUCCESS', 'ERROR', None]),
                            'sync': rng.choice([None, None, False, True]),
                            'index': rng.randint(0, 3)}
            op['state'] = rng.choice(['SUCCESS', 'ERROR', 'CANCELLED',
                                      'PAUSED', 'RUNNING', 'SUCCESS'])
            op['output'] = {'ext': 'upd%d' % rng.randint(0, 9)}
        ops.append(op)
    return ops


def make_case(seed, tier):
    rng = random.Random(seed)
    case, rng = progcase.program_case(
        seed, FEATS, max_tasks=rng.choice([3, 4, 5, 6]),
        p=rng.choice([0.3, 0.5]), rng=rng)
    progcase.swarm_config(rng, case)
    progcase.avoid_known(case, rng)
    case['ops'] = gen_ops(rng)
    faults = []
    for _ in range(rng.choice([0, 0, 1, 2, 3])):
        faults.append({'at_step': rng.randint(5, 150), 'kind': 'dup',
                       'method': rng.choice(['on_action_complete',
                                             'on_action_complete',
                                             'start_task', 'run_action']),
                       'index': rng.randint(0, 3),
                       'delay': rng.choice([0, 0, 3, 60]),
                       'redelivered': True})
    for _ in range(rng.choice([0, 0, 1])):
        faults.append({'at_step': rng.randint(5, 150), 'kind': 'delay',
                       'method': 'on_action_complete',
                       'index': rng.randint(0, 3),
                       'seconds': rng.choice([5, 30, 200])})
    case['faults'] = faults
    # a resume at the end so that paused runs go on and late events land
    if any(o['op'] == 'pause' for o in case['ops']) and rng.random() < 0.7:
        case['ops'].append({'op': 'resume', 'target': 'root',
                            'at_step': 260})
    case['settle'] = 130
    return case


def execute(case):
    return runner.run_case(case)


def evaluate(case, res):
    out = []
    for inv, msg, sig in trace.lifecycle(case, res):
        out.append((inv, msg, progcase.tag_signature(case, sig)))
    return out


def nontrivial(case, res):
    return res.sim.concurrent_steps >= 2 and len(res.recorder.commits) >= 6


def probes(case, res):
    st = res.sim.stats
    ok_ops = {}
    for e in res.ops_log:
        k = 'op_%s_%s' % (e['op']['op'], (e['result'] or ['none'])[0])
        ok_ops[k] = ok_ops.get(k, 0) + 1
    p = {'dup': st.get('fault:duplicate', 0),
         'delay': st.get('fault:delay', 0),
         'wf_terminal_then_event': 0}
    p.update(ok_ops)
    return p


shrink_candidates = progcase.shrink_candidates
