"""C01 - every workflow run finishes with the outcome its definition
prescribes (liveness + error discipline + reference outcome)."""

import random

from checks import progcase
from mistralsim import ref
from mistralsim import runner

PLAN = {
    'quick': {'runs': 4000, 'budget': 70},
    'thorough': {'runs': 200000, 'budget': 1100},
}
RULE = ('Seeded swarm: generated direct-workflow programs (random feature '
        'subset of %s), outcome assignment, topology, scheduler type, '
        'pre-emption probability, network profile, row order, id order, '
        'cache eviction.') % (progcase.CORE,)
ASSUMPTIONS = [
    'exact outcome comparison only for programs the reference marks '
    'schedule-independent (no early termination concurrent with other '
    'branches, no racy data); all runs are subject to the liveness and '
    'exception-discipline oracles',
]

FEATS = progcase.CORE + ('with_items', 'concurrency', 'retry', 'subwf',
                         'loops', 'partial_joins')


def make_case(seed, tier):
    rng = random.Random(seed)
    big = tier == 'thorough'
    case, rng = progcase.program_case(
        seed, FEATS, max_tasks=rng.choice([3, 5, 6, 8] if big else
                                          [3, 4, 5, 6]),
        p=rng.choice([0.3, 0.5, 0.7]), rng=rng)
    progcase.swarm_config(rng, case)
    progcase.avoid_known(case, rng)
    if rng.random() < 0.3:
        n = rng.randint(1, 3)
        case['faults'] = [{'at_step': rng.randint(5, 120), 'kind': 'evict'}
                          for _ in range(n)]
    return case


def execute(case):
    return runner.run_case(case)


def evaluate(case, res):
    out = []
    snap = res.snap
    # (a) liveness
    roots = [w for w in snap['wf'].values() if not w['task_execution_id']]
    for w in roots:
        if w['state'] not in ('SUCCESS', 'ERROR', 'CANCELLED'):
            stuck = sorted('%s=%s' % (res.labels.task[t['id']], t['state'])
                           for t in snap['task'].values()
                           if t['state'] not in ('SUCCESS', 'ERROR',
                                                 'CANCELLED', 'SKIPPED'))
            out.append(('C01.no_hang',
                        'execution %s left %s with nothing pending (%s); '
                        'unfinished tasks: %s' % (
                            res.labels.wf[w['id']], w['state'],
                            res.quiescent_reason, stuck),
                        progcase.tag_signature(case)))
    if 'deadlock' in res.extra:
        out.append(('C01.no_hang', 'all activities blocked: %s'
                    % res.extra['deadlock'],
                    progcase.tag_signature(case, 'deadlock')))
    # (b) error discipline
    for kind, where, e, tb in res.foreign:
        sig = progcase.exc_signature(e)
        out.append(('C01.foreign_exception',
                    '%s escaped %s (%s): %s\n%s' % (
                        type(e).__name__, kind, where, str(e)[:300],
                        (tb or '')[-1500:]),
                    progcase.tag_signature(case, sig)))
    # (c) reference outcome
    if not out:
        rr, rrec = progcase.reference(case)
        res.extra['ref_exact'] = rr.exact and not rr.racy_tasks
        if rr.state == 'NOT_CREATED':
            return out
        if not rr.exact or rr.racy_tasks:
            return out
        diffs = ref.compare(rr, rrec, res.canon, 'data')
        if diffs:
            out.append(('C01.outcome_vs_ref', '; '.join(diffs[:6]),
                        progcase.tag_signature(case)))
    return out


def nontrivial(case, res):
    return res.sim.concurrent_steps >= 2 and len(res.snap['task']) >= 2


def probes(case, res):
    st = res.sim.stats
    p = {
        'ref_exact': int(bool(res.extra.get('ref_exact'))),
        'wf_error': int(any(w['state'] == 'ERROR'
                            for w in res.snap['wf'].values())),
        'join_failed': int(any(
            t['state'] == 'ERROR' and 'Failed by tasks' in
            (t['state_info'] or '') for t in res.snap['task'].values())),
        'two_engines': int(case['config'].get('engines', 1) > 1),
        'row_order_applied': st.get('row_order_applied', 0),
    }
    return p


shrink_candidates = progcase.shrink_candidates
