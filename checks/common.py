"""Check driver shared by all properties: seeded batch over worker processes,
violation triage (re-run, minimise, fresh-interpreter replay), known findings,
evidence."""

import argparse
import concurrent.futures as cf
import copy
import faulthandler
import hashlib
import importlib
import json
import multiprocessing
import os
import subprocess
import sys
import time
import traceback

ROOT = os.path.dirname(os.path.dirname(os.path.abspath(__file__)))
if ROOT not in sys.path:
    sys.path.insert(0, ROOT)

EVIDENCE_DIR = os.path.join(ROOT, 'evidence')
REPLAY_DIR = os.environ.get('VERIF_REPLAY_DIR') or os.path.join(ROOT, 'replays')
KNOWN_FILE = os.path.join(ROOT, 'KNOWN_FINDINGS.json')

REAL_COMPONENTS = [
    'mistral.engine.* (default_engine, task_handler, tasks, workflows, '
    'workflow_handler, actions, action_handler, dispatcher, policies, '
    'post_tx_queue)',
    'mistral.workflow.* (direct/reverse controllers, data_flow, '
    'context_versioning, commands, states)',
    'mistral.lang.* (parser, specs) / mistral.expressions (YAQL, Jinja)',
    'mistral.db.v2.sqlalchemy.api + SQLAlchemy + SQLite (in-memory)',
    'mistral.scheduler.default_scheduler / mistral.services.legacy_scheduler'
    ' (real loop/dispatcher/poll methods on simulator threads)',
    'mistral.rpc.clients (EngineClient/ExecutorClient), EngineServer / '
    'ExecutorServer endpoint methods, RpcContextSerializer',
    'mistral.executors.default_executor.DefaultExecutor',
]
STUB_COMPONENTS = [
    'oslo.messaging transport + server thread pool -> mistralsim.net',
    'OS thread scheduling -> baton scheduler (mistralsim.core)',
    'wall clock / time.sleep / threading.Timer -> virtual clock',
    'uuid source -> seeded generator',
    'action bodies -> mistralsim.actions (outcome from the case)',
    'jsonschema meta-schema re-validation memoised (instance validation real)',
    'Keystone / notifier: not enabled',
]


def derive_seed(base, prop, i):
    h = hashlib.sha256(('%s|%s|%s' % (base, prop, i)).encode()).digest()
    return int.from_bytes(h[:6], 'big')


# ----------------------------------------------------------------- worker
_MOD = None
_PROP = None


def _worker_init(prop_module_name):
    global _MOD
    faulthandler.enable()
    os.environ.setdefault('PYTHONHASHSEED', '0')
    import warnings
    warnings.simplefilter('ignore')
    from mistralsim import world
    world.boot()
    _MOD = importlib.import_module(prop_module_name)


def summarize(case, res, viols, mod):
    sim = res.sim
    stats = dict(sim.stats) if sim else {}
    out = {
        'seed': case['seed'],
        'status': res.status,
        'reason': res.reason[:4000] if res.status != 'ok' else '',
        'violations': viols,
        'steps': sim.step if sim else 0,
        'vtime': sim.vtime() if sim else 0.0,
        'stats': stats,
        'sig': (mod.case_digest(case, res) if hasattr(mod, 'case_digest')
                else (sim.sig.hexdigest() if sim else '')),
        'concurrent_steps': sim.concurrent_steps if sim else 0,
        'wall': res.wall,
        'quiescent': res.quiescent_reason,
    }
    if res.recorder is not None:
        out['commits'] = len(res.recorder.commits)
    try:
        out['probes'] = mod.probes(case, res) if hasattr(mod, 'probes') \
            else {}
    except Exception:
        out['probes'] = {}
    try:
        out['nontrivial'] = bool(mod.nontrivial(case, res)) \
            if hasattr(mod, 'nontrivial') else (
                sim is not None and sim.concurrent_steps >= 2)
    except Exception:
        out['nontrivial'] = False
    if hasattr(mod, 'state_digests'):
        try:
            out['state_digests'] = mod.state_digests(case, res)
        except Exception:
            out['state_digests'] = []
    elif res.recorder is not None:
        try:
            out['state_digests'] = committed_state_digests(res.recorder)
        except Exception:
            out['state_digests'] = []
    return out


def committed_state_digests(rec, cap=400):
    """Digest of the committed global state after every commit of a run:
    the multiset of (table, row name, state, accepted/processed flags) over
    the execution, scheduler and trigger tables - ids, data and time are left
    out, so two runs reach the 'same state' when the same named things are
    in the same lifecycle states."""
    rows = {}
    out = set()
    for cno, step, tlabel, evs in rec.commits[:cap]:
        for e in evs:
            key = (e.table, e.id)
            if e.op == 'delete':
                rows.pop(key, None)
                continue
            r = rows.setdefault(key, {})
            for k in ('name', 'state', 'accepted', 'processed',
                      'workflow_name', 'func_name', 'captured_at',
                      'processing', 'remaining_executions'):
                if k in e.vals:
                    v = e.vals[k]
                    if k == 'captured_at':
                        v = v is not None
                    r[k] = v
        items = sorted((k[0],) + tuple(sorted(
            (a, str(b)) for a, b in v.items())) for k, v in rows.items())
        out.add(hashlib.sha1(repr(items).encode()).hexdigest()[:12])
    return sorted(out)


def run_one(case, mod=None):
    """Runs the case and evaluates the property's oracles.
    Returns (res, violations[list of dict])."""
    mod = mod or _MOD
    res = mod.execute(case)
    viols = []
    if res.status == 'ok':
        try:
            eff = bool(res.sim is not None and
                       res.sim.stats.get('txwin_effective'))
            late_reset = None
            for v in mod.evaluate(case, res):
                sig = (v[2] if len(v) > 2 else '')
                if late_reset is None:
                    # a task execution that had already left WAITING was put
                    # back to WAITING by a later route (open finding F3)
                    try:
                        from checks import trace as _trace
                        late_reset = bool(
                            res.recorder is not None and
                            _trace.had_late_route_reset(res))
                    except Exception:
                        late_reset = False
                if late_reset and 'reset_by_late_route' not in sig:
                    sig = (sig + ' reset_by_late_route').strip()
                if eff:
                    # a transaction of this run was parked before its first
                    # write while another one committed (overlap window)
                    sig = (sig + ' overlap_effective').strip()
                viols.append({'invariant': v[0], 'message': v[1][:3000],
                              'signature': sig})
        except Exception as e:
            res.status = 'harness_error'
            res.reason = 'oracle: %s\n%s' % (e, traceback.format_exc())
    return res, viols


def _job(args):
    prop, base_seed, i, tier, budget_deadline, saturated = args
    t0 = time.time()
    faulthandler.dump_traceback_later(300, exit=False)
    try:
        seed = derive_seed(base_seed, prop, i)
        case = _MOD.make_case(seed, tier)
        case['property'] = prop
        case['seed'] = seed
        case['tier'] = tier
        res, viols = run_one(case)
        summ = summarize(case, res, viols, _MOD)
        summ['index'] = i
        if i < 3 or viols:
            summ['sample'] = sample_of(case, res)
        if viols and saturated:
            # the same known finding has already been confirmed (minimised
            # and matched) several times in this batch: do not spend the
            # budget on minimising yet another instance
            k = match_known(prop, viols[0], load_known())
            if k is not None and k['id'] in saturated:
                summ['known_id'] = k['id']
                summ['probable_known'] = True
                return summ
        if viols:
            doc = triage(case, res, viols)
            summ['case'] = doc
            v0 = dict(viols[0])
            if doc.get('_signature') is not None:
                v0['signature'] = doc['_signature']
            k = match_known(prop, v0, load_known())
            summ['known_id'] = k['id'] if k else None
        return summ
    except Exception as e:
        return {'index': i, 'seed': -1, 'status': 'harness_error',
                'reason': '%s\n%s' % (e, traceback.format_exc()),
                'violations': [], 'steps': 0, 'vtime': 0, 'stats': {},
                'sig': '', 'concurrent_steps': 0, 'wall': time.time() - t0,
                'probes': {}, 'nontrivial': False, 'quiescent': ''}
    finally:
        faulthandler.cancel_dump_traceback_later()


def _regress_job(args):
    """Re-run a stored failing case of a repaired defect: recorded
    schedule first, then a few seeded schedules."""
    prop, path = args
    faulthandler.dump_traceback_later(300, exit=False)
    try:
        with open(path) as f:
            doc = json.load(f)
        out = None
        for k, sched in enumerate([doc.get('schedule'), None, None, []]):
            case = copy.deepcopy(doc)
            case['schedule'] = sched
            if sched is None:
                case['seed'] = derive_seed(case.get('seed', 0), prop, k)
            res, viols = run_one(case)
            summ = summarize(case, res, viols, _MOD)
            summ['index'] = -1
            summ['regression'] = os.path.basename(path)
            if viols:
                d2 = strip_case(case)
                d2['schedule'] = export_schedule(res)
                d2['expect'] = {'violation': viols[0]['invariant'],
                                'event_log_sha1': log_digest(res)}
                d2['_triage'] = 'confirmed'
                d2['_signature'] = viols[0].get('signature', '')
                summ['case'] = d2
                k2 = match_known(prop, viols[0], load_known())
                summ['known_id'] = k2['id'] if k2 else None
                return summ
            out = summ
        return out
    finally:
        faulthandler.cancel_dump_traceback_later()


def sample_of(case, res):
    s = {'seed': case['seed'], 'config': case.get('config')}
    defs = case.get('defs') or {}
    txt = (defs.get('workflows') or defs.get('workbooks') or [''])
    s['program'] = txt[0][:1500] if txt else ''
    for k in ('ops', 'faults', 'scenario', 'feats'):
        if case.get(k):
            s[k] = case[k]
    if res is not None and res.sim is not None:
        s['schedule_excerpt'] = [c[1] for c in res.sim.schedule[:25]]
        s['steps'] = res.sim.step
    return s


# ----------------------------------------------------------------- triage
def strip_case(case):
    c = dict((k, v) for k, v in case.items() if not k.startswith('_'))
    return json.loads(json.dumps(c, default=str))


def triage(case, res, viols):
    """In the worker: confirm reproducibility with the recorded schedule,
    minimise, return the replay document."""
    mod = _MOD
    inv = viols[0]['invariant']
    doc = strip_case(case)
    doc['schedule'] = export_schedule(res)
    doc['expect'] = {'violation': inv,
                     'event_log_sha1': log_digest(res)}
    # 1. same-process re-run from the recorded schedule
    r2, v2 = run_one(copy.deepcopy(doc))
    if not any(v['invariant'] == inv for v in v2):
        doc['_triage'] = 'harness:nondeterministic'
        return doc
    if log_digest(r2) != doc['expect']['event_log_sha1']:
        doc['_triage'] = 'harness:nondeterministic-log'
        return doc
    doc['_triage'] = 'confirmed'
    # 2. minimise
    try:
        doc = minimise(doc, inv, mod, deadline=time.time() + getattr(
            mod, 'SHRINK_BUDGET', 25))
    except Exception as e:
        doc['_shrink_error'] = '%s' % e
    # 3. signature of the minimised case (what known findings are keyed by)
    try:
        r3, v3 = run_one(copy.deepcopy(doc), mod)
        for v in v3:
            if v['invariant'] == inv:
                doc['_signature'] = v.get('signature', '')
                doc['_message'] = v.get('message', '')
    except Exception:
        pass
    return doc


def export_schedule(res):
    if res.extra.get('multi_schedule') is not None:
        return {'multi': res.extra['multi_schedule']}
    return [list(x) for x in res.sim.schedule]


def log_digest(res):
    if res.extra.get('multi_digest') is not None:
        return res.extra['multi_digest']
    return res.sim.log_digest() if res.sim else ''


def still_fails(doc, inv, mod):
    try:
        res, viols = run_one(copy.deepcopy(doc), mod)
    except Exception:
        return None
    if res.status != 'ok':
        return None
    for v in viols:
        if v['invariant'] == inv:
            return res
    return None


def minimise(doc, inv, mod, deadline):
    best = doc
    # schedule -> default choices
    cand = copy.deepcopy(best)
    cand['schedule'] = []
    multi = isinstance(best.get('schedule'), dict)
    r = None if multi else still_fails(cand, inv, mod)
    if r is not None:
        best = cand
    elif not multi:
        # ddmin-ish: reset chunks of the schedule to default choice
        sched = best['schedule']
        n = 8
        while n >= 1 and time.time() < deadline and len(sched) > 0:
            size = max(1, len(sched) // n)
            changed = False
            for start in range(0, len(sched), size):
                if time.time() >= deadline:
                    break
                cand = copy.deepcopy(best)
                s2 = cand['schedule']
                touched = False
                for k in range(start, min(start + size, len(s2))):
                    if s2[k][0] != 0:
                        s2[k] = [0, '?']
                        touched = True
                if not touched:
                    continue
                if still_fails(cand, inv, mod) is not None:
                    best = cand
                    sched = best['schedule']
                    changed = True
            if not changed:
                n //= 2
    # faults / ops
    for key in ('faults', 'ops'):
        i = 0
        while i < len(best.get(key) or []) and time.time() < deadline:
            if best[key][i].get('keep'):
                i += 1
                continue
            cand = copy.deepcopy(best)
            del cand[key][i]
            if still_fails(cand, inv, mod) is not None:
                best = cand
            else:
                i += 1
    # program
    if hasattr(mod, 'shrink_candidates'):
        progress = True
        while progress and time.time() < deadline:
            progress = False
            for cand in mod.shrink_candidates(best):
                if time.time() >= deadline:
                    break
                ok = None
                for sched in ((None,) if multi else ([], None)):
                    c2 = copy.deepcopy(cand)
                    c2['schedule'] = sched
                    if still_fails(c2, inv, mod) is not None:
                        ok = c2
                        break
                if ok is not None:
                    best = ok
                    progress = True
                    break
    # final: record the real schedule + digest of the minimised case
    final = copy.deepcopy(best)
    r = still_fails(final, inv, mod)
    if r is not None:
        final['schedule'] = export_schedule(r)
        final['expect'] = {'violation': inv,
                           'event_log_sha1': log_digest(r)}
        final['_triage'] = 'confirmed'
        return final
    return doc


# ------------------------------------------------------------ known findings
def load_known():
    if not os.path.exists(KNOWN_FILE):
        return []
    with open(KNOWN_FILE) as f:
        data = json.load(f)
    return [k for k in data.get('findings', [])
            if k.get('status', 'open') == 'open']


def match_known(prop, viol, known):
    for k in known:
        if prop not in k.get('properties', [k.get('property')]):
            continue
        if viol['invariant'] not in k.get('invariants',
                                         [k.get('invariant')]):
            continue
        have = set((viol.get('signature') or '').split())
        need = set(k.get('requires_tags') or [])
        if need and not need <= have:
            continue
        forbid = set(k.get('forbids_tags') or [])
        if forbid & have:
            continue
        return k
    return None


# ------------------------------------------------------------------- main
def replay_main(prop, mod, path):
    """./check <id> --replay file : exit 1 + VIOLATION when it reproduces."""
    from mistralsim import world
    world.boot()
    with open(path) as f:
        doc = json.load(f)
    res, viols = run_one(doc, mod)
    exp = doc.get('expect', {})
    digest = log_digest(res)
    print('replay status=%s digest=%s expected=%s' % (
        res.status, digest, exp.get('event_log_sha1')))
    if res.status != 'ok':
        print('harness: %s' % res.reason[:2000])
        return 3
    for v in viols:
        print('  %s: %s' % (v['invariant'], v['message'][:1500]))
    hit = [v for v in viols if v['invariant'] == exp.get('violation')]
    if hit and (not exp.get('event_log_sha1') or
                digest == exp['event_log_sha1']):
        known = load_known()
        k = match_known(prop, hit[0], known)
        if k is not None:
            print('KNOWN-FINDING: property=%s %s' % (prop, k['title']))
            return 0
        print('VIOLATION property=%s replay=%s' % (prop, path))
        return 1
    if hit:
        print('harness:replay-diverged (violation reproduced, log differs)')
        return 3
    print('not reproduced')
    return 0


def main(prop, module_name, argv=None):
    ap = argparse.ArgumentParser()
    ap.add_argument('--tier', default=os.environ.get('VERIF_TIER', 'quick'))
    ap.add_argument('--seed', type=int,
                    default=int(os.environ.get('VERIF_SEED', '1')))
    ap.add_argument('--replay')
    ap.add_argument('--runs', type=int)
    ap.add_argument('--budget', type=float)
    ap.add_argument('--workers', type=int,
                    default=int(os.environ.get('VERIF_WORKERS', '0')))
    ap.add_argument('--no-evidence', action='store_true')
    args = ap.parse_args(argv)

    if os.environ.get('PYTHONHASHSEED') != '0':
        env = dict(os.environ, PYTHONHASHSEED='0')
        os.execve(sys.executable, [sys.executable, '-W', 'ignore'] + sys.argv,
                  env)
    import warnings
    warnings.simplefilter('ignore')
    mod = importlib.import_module(module_name)
    if args.replay:
        return replay_main(prop, mod, args.replay)

    tier = args.tier
    t_start = time.time()
    plan = mod.PLAN[tier]
    runs = args.runs or plan['runs']
    budget = args.budget or plan['budget']
    workers = args.workers or min(16, os.cpu_count() or 4)
    print('check %s tier=%s seed=%d runs<=%d budget=%ds workers=%d' % (
        prop, tier, args.seed, runs, budget, workers))
    sys.stdout.flush()
    deadline = t_start + budget
    ctx = multiprocessing.get_context('fork')
    results = []
    viol_docs = []
    harness = []
    pool = cf.ProcessPoolExecutor(max_workers=workers, mp_context=ctx,
                                  initializer=_worker_init,
                                  initargs=(module_name,))
    pending = set()
    next_i = 0
    stop_submitting = False
    saturated = set()
    known_counts = {}
    reg_dir = os.path.join(ROOT, 'regressions')
    if os.path.isdir(reg_dir):
        for fn in sorted(os.listdir(reg_dir)):
            if fn.startswith(prop + '-') and fn.endswith('.json'):
                pending.add(pool.submit(
                    _regress_job, (prop, os.path.join(reg_dir, fn))))
    try:
        while True:
            while (not stop_submitting and next_i < runs and
                   len(pending) < workers * 2 and time.time() < deadline):
                fut = pool.submit(_job, (prop, args.seed, next_i, tier,
                                         deadline, sorted(saturated)))
                pending.add(fut)
                next_i += 1
            if not pending:
                break
            done, pending = cf.wait(pending, timeout=30,
                                    return_when=cf.FIRST_COMPLETED)
            for fut in done:
                try:
                    s = fut.result()
                except Exception as e:
                    s = {'index': -1, 'seed': -1, 'status': 'harness_error',
                         'reason': 'worker died: %s' % e, 'violations': [],
                         'steps': 0, 'vtime': 0, 'stats': {}, 'sig': '',
                         'concurrent_steps': 0, 'wall': 0, 'probes': {},
                         'nontrivial': False, 'quiescent': ''}
                results.append(s)
                if s.get('violations') and s.get('known_id') and \
                        not s.get('probable_known'):
                    kid = s['known_id']
                    known_counts[kid] = known_counts.get(kid, 0) + 1
                    if known_counts[kid] >= 3:
                        saturated.add(kid)
                if s.get('violations'):
                    viol_docs.append(s)
                    unknown = [x for x in viol_docs if not x.get('known_id')]
                    if len(unknown) >= plan.get('max_violations', 5):
                        stop_submitting = True
            if time.time() > deadline + 240:
                print('harness: batch overran its budget, abandoning %d jobs'
                      % len(pending))
                break
    finally:
        pool.shutdown(wait=False, cancel_futures=True)

    rc = finish(prop, mod, tier, args, results, viol_docs, t_start)
    # make sure stray worker processes do not keep us alive
    for p in multiprocessing.active_children():
        try:
            p.terminate()
        except Exception:
            pass
    return rc


def finish(prop, mod, tier, args, results, viol_docs, t_start):
    known = load_known()
    wall = time.time() - t_start
    n = len(results)
    ok = [r for r in results if r['status'] == 'ok']
    inconcl = [r for r in results if r['status'] == 'inconclusive']
    herr = [r for r in results if r['status'] == 'harness_error']
    new_viol = []
    known_hits = {}
    nondet = []
    os.makedirs(REPLAY_DIR, exist_ok=True)
    known_by_id = dict((k['id'], k) for k in known)
    for s in viol_docs:
        doc = s.get('case') or {}
        v0 = s['violations'][0]
        if s.get('probable_known'):
            k = known_by_id.get(s['known_id'])
            if k is not None:
                known_hits.setdefault(k['id'], [k, 0])[1] += 1
            continue
        if doc.get('_triage') != 'confirmed':
            nondet.append(s)
            continue
        if doc.get('_signature') is not None:
            v0 = dict(v0, signature=doc['_signature'],
                      message=doc.get('_message') or v0['message'])
            s['violations'][0] = v0
        k = match_known(prop, v0, known)
        if k is not None:
            known_hits.setdefault(k['id'], [k, 0])[1] += 1
            continue
        new_viol.append((s, doc))
    reported = []
    seen_inv = set()
    for s, doc in new_viol:
        inv = s['violations'][0]['invariant']
        if inv in seen_inv and len(reported) >= 3:
            continue
        seen_inv.add(inv)
        path = os.path.join(REPLAY_DIR, '%s-%d.json' % (prop, s['seed']))
        with open(path, 'w') as f:
            json.dump(doc, f, indent=1, sort_keys=True, default=str)
        # fresh-interpreter replay
        try:
            p = subprocess.run(
                [sys.executable, '-W', 'ignore',
                 os.path.join(ROOT, 'check'), prop, '--replay', path],
                capture_output=True, text=True, timeout=300,
                env=dict(os.environ, PYTHONHASHSEED='0'))
            fresh_ok = p.returncode == 1 and 'VIOLATION' in p.stdout
        except Exception as e:
            fresh_ok = False
            p = None
        if fresh_ok:
            reported.append((s, path))
            print('violation %s: %s' % (
                inv, s['violations'][0]['message'][:1200]))
            print('VIOLATION property=%s replay=%s' % (prop, path))
        else:
            nondet.append(s)
            print('harness: violation %s (seed %s) did not replay in a fresh'
                  ' interpreter; not reported. %s' % (
                      inv, s['seed'], (p.stdout[-500:] if p else '')))
    for kid, (k, cnt) in sorted(known_hits.items()):
        print('KNOWN-FINDING: property=%s %s [%s; seen %d times in this run]'
              % (prop, k['title'], kid, cnt))
    # known findings are also printed when the run did not happen to hit them
    for k in known:
        if prop in k.get('properties', [k.get('property')]) and \
                k['id'] not in known_hits:
            print('KNOWN-FINDING: property=%s %s [%s; not hit in this run]'
                  % (prop, k['title'], k['id']))

    # ---------------- evidence
    agg_stats = {}
    probes = {}
    sigs = set()
    nontriv_sigs = set()
    state_digests = set()
    vtime = 0.0
    steps = 0
    for r in ok + inconcl:
        for k2, v in (r.get('stats') or {}).items():
            agg_stats[k2] = agg_stats.get(k2, 0) + v
        for k2, v in (r.get('probes') or {}).items():
            probes[k2] = probes.get(k2, 0) + (v if isinstance(v, int) else
                                               int(bool(v)))
        if r.get('sig'):
            sigs.add(r['sig'])
            if r.get('nontrivial'):
                nontriv_sigs.add(r['sig'])
        for d in r.get('state_digests') or []:
            state_digests.add(d)
        vtime += r.get('vtime') or 0
        steps += r.get('steps') or 0
    faults = dict((k2[6:], v) for k2, v in agg_stats.items()
                  if k2.startswith('fault:'))
    yields = dict((k2[6:], v) for k2, v in agg_stats.items()
                  if k2.startswith('yield:'))
    samples = [r['sample'] for r in results if r.get('sample')][:4]
    if not samples:
        samples = [{'note': 'no sample captured'}]
    evidence = {
        'property_id': prop,
        'tier': tier if tier in ('quick', 'thorough') else 'quick',
        'seed': args.seed,
        'level': 'exploration',
        'wall_s': round(wall, 2),
        'violations': len(reported),
        'coverage': {
            'evaluations': n,
            'distinct_nontrivial': len(nontriv_sigs),
            'rule': getattr(mod, 'RULE', '') + ' distinct = distinct SHA-1 of'
            ' the sequence of (chosen task/message label, number of '
            'alternatives) over the whole run; non-trivial = the run '
            'satisfied the per-property predicate nontrivial() (by default:'
            ' at least two steps with more than one enabled alternative). '
            'distinct_states = distinct digests of the committed global '
            'state after each commit (multiset of table, row name, state, '
            'accepted/processed flags; ids, data and time left out).',
            'samples': samples,
            'ok_runs': len(ok),
            'inconclusive_runs': len(inconcl),
            'harness_errors': len(herr),
            'nondeterministic_or_unreplayable': len(nondet),
            'runs_per_hour': round(n / wall * 3600) if wall > 0 else 0,
            'simulated_seconds': round(vtime, 1),
            'simulated_steps': steps,
            'distinct_interleavings': len(sigs),
            'distinct_states': len(state_digests),
            'faults_fired': faults,
            'yield_points': yields,
            'messages': dict((k2, v) for k2, v in agg_stats.items()
                             if k2.startswith('msg_')),
            'probes': probes,
            'cas': {'won': agg_stats.get('cas_won', 0),
                    'lost': agg_stats.get('cas_lost', 0)},
            'overlap_windows': {
                'opened': agg_stats.get('txwin_opened', 0),
                'effective': agg_stats.get('txwin_effective', 0),
                'note': 'a transaction without writes parked before its '
                        'first write while other nodes commit; effective = '
                        'another transaction committed meanwhile'},
            'known_findings_matched': dict(
                (kid, cnt) for kid, (k, cnt) in known_hits.items()),
            'real_components': REAL_COMPONENTS + getattr(mod, 'REAL', []),
            'stub_components': STUB_COMPONENTS + getattr(mod, 'STUBS', []),
            'harness_error_samples': [r['reason'][:600] for r in herr[:3]],
            'inconclusive_samples': ['seed %s: %s' % (r.get('seed'),
                                                     r['reason'][:200])
                                     for r in inconcl[:3]],
        },
        'assumptions': [
            'SQLite serialises whole transactions (as the code itself does '
            'with tx_lock); overlapping transactions of different engine '
            'processes under READ COMMITTED are out of reach',
            'a clean batch is evidence, not proof (seeded sampling)',
        ] + getattr(mod, 'ASSUMPTIONS', []),
    }
    if not args.no_evidence:
        os.makedirs(EVIDENCE_DIR, exist_ok=True)
        with open(os.path.join(EVIDENCE_DIR, '%s.json' % prop), 'w') as f:
            json.dump(evidence, f, indent=1, sort_keys=True, default=str)
    print('%s: runs=%d ok=%d inconclusive=%d harness_errors=%d '
          'violations=%d known=%d distinct_nontrivial=%d wall=%.1fs' % (
              prop, n, len(ok), len(inconcl), len(herr), len(reported),
              sum(c for _, c in known_hits.values()), len(nontriv_sigs),
              wall))
    if herr:
        print('harness error sample: %s' % herr[0]['reason'][:1500])
    if reported:
        return 1
    bad_share = (len(herr) + len(nondet)) / float(max(n, 1))
    if n == 0 or bad_share > 0.10:
        print('harness: too many harness errors (%d of %d) - check broken'
              % (len(herr) + len(nondet), n))
        return 2
    return 0
