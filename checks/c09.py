"""C09 - a sub-workflow and its parent task stay consistent."""

import random

from checks import progcase
from checks import trace
from mistralsim import gen
from mistralsim import runner

PLAN = {
    'quick': {'runs': 2500, 'budget': 75},
    'thorough': {'runs': 100000, 'budget': 1100},
}
RULE = ('Generated nests of workflows (depth 1-3), children called from '
        'plain and with-items tasks by name, workbook-relative name or '
        'expression, inside a namespace or not, started in-process or '
        'through the bus, with every child outcome (success, error, '
        'operator cancel), duplicated hand-off messages, undeclared input '
        'keys, root environment; ')
ENV = {'e1': 'ROOT-ENV', 'e2': 7}


def _child(rng, name, depth, lang, all_wfs, wb):
    n = rng.randint(1, 3)
    tasks = []
    for i in range(n):
        t = {'name': 'c%d' % i,
             'body': {'kind': rng.choice(['sync', 'sync', 'async'])}}
        if rng.random() < 0.5:
            t['publish'] = {'ev_%s_%d' % (name.replace('.', '_'), i):
                            ['env', 'e1']}
        if depth < 3 and rng.random() < 0.35 and len(all_wfs) < 5:
            cname = 'sub%d' % len(all_wfs)
            full = '%s.%s' % (wb, cname) if wb else cname
            all_wfs.append(None)
            idx = len(all_wfs) - 1
            all_wfs[idx] = _child(rng, full, depth + 1, lang, all_wfs, wb)
            all_wfs[idx]['short'] = cname
            t['body'] = {'kind': 'wf', 'wf': cname,
                         'input': {'declared': ['const', 11],
                                   'undeclared_k': ['const', 22]}}
            if rng.random() < 0.25:
                # an undeclared input that happens to be called 'env': it is
                # an execution parameter of the child like any other and
                # must not replace the root execution's environment
                t['body']['input']['env'] = ['const', {'e1': 'CHILD-ENV',
                                                       'e2': 8}]
            if rng.random() < 0.3:
                cnt = rng.choice([1, 2, 3])
                t['with_items'] = {'var': 'i', 'n': cnt,
                                   'list': ['const', list(range(cnt))]}
                if rng.random() < 0.4:
                    t['concurrency'] = rng.randint(1, cnt)
        tasks.append(t)
    for i, t in enumerate(tasks[:-1]):
        if rng.random() < 0.7:
            t['on_success'] = [{'to': tasks[i + 1]['name']}]
        if rng.random() < 0.3:
            t['on_error'] = [{'to': tasks[i + 1]['name']}]
    wf = {'name': name, 'short': name.split('.')[-1], 'type': 'direct',
          'lang': lang, 'tasks': tasks, 'path_input': True,
          'input': [{'x': 1}, {'declared': 0}]}
    if rng.random() < 0.5:
        wf['output'] = {'out': ['var', 'x'], 'e': ['env', 'e2']}
    return wf


def make_case(seed, tier):
    rng = random.Random(seed)
    lang = rng.choice(['yaql', 'yaql', 'jinja'])
    wb = 'wb' if rng.random() < 0.35 else None
    all_wfs = [None]
    main_name = 'wb.main' if wb else 'main'
    main = _child(rng, main_name, 1, lang, all_wfs, wb)
    # make sure there is at least one sub-workflow call
    if not any((t.get('body') or {}).get('kind') == 'wf'
               for w in all_wfs[1:] + [main] if w for t in w['tasks']):
        cname = 'sub%d' % len(all_wfs)
        full = '%s.%s' % (wb, cname) if wb else cname
        all_wfs.append(_child(rng, full, 3, lang, all_wfs, wb))
        all_wfs[-1]['short'] = cname
        main['tasks'][0]['body'] = {
            'kind': 'wf', 'wf': cname,
            'input': {'declared': ['const', 11],
                      'undeclared_k': ['const', 22]}}
    main['path_input'] = False
    main['short'] = 'main'
    all_wfs[0] = main
    # call by expression sometimes
    if rng.random() < 0.3:
        for t in main['tasks']:
            b = t.get('body') or {}
            if b.get('kind') == 'wf':
                b['wf_expr'] = ['var', 'wfname']
                main['input'].append({'wfname': b['wf']})
                break
    prog = {'workflows': all_wfs, 'workbook': wb}
    case = runner.default_case()
    case['seed'] = seed
    case['prog'] = prog
    case['feats'] = ['subwf']
    case['defs'] = gen.render_program(prog)
    ns = rng.choice(['', '', 'nsA'])
    case['defs']['namespace'] = ns
    case['def_ns'] = {}
    if ns and not wb and rng.random() < 0.6:
        # definitions spread over the caller's namespace and the default
        # one: a name is looked up in the namespace of the caller first and
        # then in the default namespace ('both' = a definition in each)
        place = {}
        for w in all_wfs[1:]:
            place[w['name']] = rng.choice(['ns', 'default', 'default',
                                           'both'])
        case['def_place'] = place
        case['defs'] = progcase.render_placed(prog, place, ns)
        case['def_ns'] = dict((k2, ns if v in ('ns', 'both') else '')
                              for k2, v in place.items())
    case['starts'] = [{'wf': main_name, 'namespace': ns,
                       'input': {'x': 1}, 'params': {'env': dict(ENV)}}]
    prog['workflows'][0]['env'] = dict(ENV)
    case['outcome_seed'] = seed
    case['p_err'] = rng.choice([0.0, 0.15, 0.3])
    case['outcome_special'] = False
    progcase.swarm_config(rng, case)
    progcase.avoid_known(case, rng, p_keep=0.05)
    if rng.random() < 0.3:
        case['ops'] = [{'op': 'stop', 'state': 'CANCELLED',
                        'message': 'cancelled-by-operator',
                        'target': 'sub:%d' % rng.randint(0, 3),
                        'at_step': rng.randint(10, 120)}]
    if rng.random() < 0.4:
        case['dup'] = {'methods': ['on_action_complete'],
                       'p': rng.choice([0.2, 0.5]), 'copies': 1,
                       'delays': rng.choice([[0], [0, 5]])}
    case['settle'] = 30
    return case


def execute(case):
    from checks import c06
    return c06.Runner6(case, case.get('dup')).run()


def evaluate(case, res):
    out = []
    snap = res.snap
    lab = res.labels
    sig = progcase.tag_signature(case)
    wfs, tasks = snap['wf'], snap['task']
    kids = {}
    for w in wfs.values():
        if w['task_execution_id']:
            kids.setdefault(w['task_execution_id'], []).append(w)
    roots = [w for w in wfs.values() if not w['task_execution_id']]
    root = roots[0] if roots else None
    cancelled_by_op = any(o['op']['op'] == 'stop' and o['result'] and
                          o['result'][0] == 'ok' for o in res.ops_log)
    # --- parent / child
    for t in tasks.values():
        if not (t['spec'] or {}).get('workflow'):
            continue
        ch = kids.get(t['id'], [])
        wi = bool((t['spec'] or {}).get('with-items'))
        pw = wfs[t['workflow_execution_id']]
        if t['state'] in trace.TASK_DONE:
            if 'Failed to' in (t['state_info'] or ''):
                continue
            if not wi:
                if len(ch) != 1:
                    if not (ch == [] and t['state'] == 'ERROR'):
                        out.append(('C09.parent_continued_twice',
                                    'task %s has %d sub-workflow '
                                    'executions' % (lab.any(t['id']),
                                                    len(ch)), sig))
                    continue
                c = ch[0]
                if c['state'] != t['state'] and not (
                        pw['state'] in trace.TERMINAL and
                        c['state'] not in trace.TERMINAL):
                    out.append((
                        'C09.parent_child_state',
                        'task %s is %s but its sub-workflow %s is %s' % (
                            lab.any(t['id']), t['state'], lab.any(c['id']),
                            c['state']), sig))
                elif t['state'] == 'SUCCESS':
                    r = (res.canon['tasks'][lab.task[t['id']]]
                         .get('result') or [None])
                    co = res.canon['wf'][lab.wf[c['id']]].get('output')
                    if r[0] != co:
                        out.append((
                            'C09.parent_child_state',
                            'task %s result %r differs from the output of '
                            'its sub-workflow %r' % (lab.any(t['id']), r[0],
                                                     co), sig))
        else:
            # parent task not finished although every child is
            if ch and all(c['state'] in trace.TERMINAL for c in ch) and \
                    pw['state'] not in trace.TERMINAL and \
                    pw['state'] != 'PAUSED' and not wi:
                out.append((
                    'C09.parent_child_state',
                    'task %s is still %s at quiescence although its '
                    'sub-workflow %s finished %s (hand-off lost)' % (
                        lab.any(t['id']), t['state'],
                        lab.any(ch[0]['id']), ch[0]['state']), sig))
    # --- the parent continues exactly once per child completion
    completions = {}
    hist = trace.History(res)
    for cno, step, actor, changes in hist.iterate():
        for table, id_, old, new in changes:
            if table == trace.TASK and new is not None and old is not None:
                if new.get('state') in trace.TASK_DONE and \
                        old.get('state') not in trace.TASK_DONE:
                    completions[id_] = completions.get(id_, 0) + 1
    for t in tasks.values():
        if (t['spec'] or {}).get('workflow') and \
                completions.get(t['id'], 0) > 1 and \
                not (t['spec'] or {}).get('retry'):
            out.append(('C09.parent_continued_twice',
                        'parent task %s completed %d times' % (
                            lab.any(t['id']), completions[t['id']]), sig))
        if (t['spec'] or {}).get('workflow'):
            for nxt, ev in (t['next_tasks'] or []):
                trig = [f for f in tasks.values()
                        if f['name'] == nxt and
                        f['workflow_execution_id'] ==
                        t['workflow_execution_id'] and
                        (f['spec'] or {}).get('join') is None and
                        t['id'] in [x.get('task_id') for x in
                                    ((f['runtime_context'] or {})
                                     .get('triggered_by') or [])]]
                if len(trig) > 1:
                    out.append((
                        'C09.parent_continued_twice',
                        'task %s triggered %d executions of %s' % (
                            lab.any(t['id']), len(trig), nxt), sig))
    # --- root id / namespace on every descendant
    if root is not None:
        rns = (root['params'] or {}).get('namespace', '')
        for w in wfs.values():
            if w is root:
                continue
            if w['root_execution_id'] != root['id']:
                out.append(('C09.root_id',
                            'execution %s records root %s, expected %s' % (
                                lab.any(w['id']),
                                lab.any(w['root_execution_id']),
                                lab.any(root['id'])), sig))
            want_ns = (case.get('def_ns') or {}).get(
                w['name'], root['workflow_namespace'] or '')
            if (w['params'] or {}).get('namespace', '') != rns or \
                    (w['workflow_namespace'] or '') != want_ns:
                out.append(('C09.root_id',
                            'execution %s has namespace %r/%r, caller has '
                            '%r' % (lab.any(w['id']),
                                    (w['params'] or {}).get('namespace'),
                                    w['workflow_namespace'], rns), sig))
            # --- params split
            p = w['params'] or {}
            inp = w['input'] or {}
            if 'undeclared_k' in inp or (
                    'undeclared_k' not in p and 'declared' in inp and
                    inp.get('declared') == 11):
                out.append(('C09.params_split',
                            'execution %s: undeclared input key ended up '
                            'in input=%r params=%r' % (
                                lab.any(w['id']), inp,
                                dict((k, v) for k, v in p.items()
                                     if k != 'env')), sig))
            elif inp.get('declared') == 11 and p.get('undeclared_k') != 22:
                out.append(('C09.params_split',
                            'execution %s lost the undeclared input key: '
                            'params=%r' % (lab.any(w['id']), p), sig))
    # --- env() in descendants is the root environment
    for t in tasks.values():
        for k, v in (t['published'] or {}).items():
            if k.startswith('ev_') and v != ENV['e1']:
                out.append(('C09.env',
                            'task %s evaluated env().e1 to %r' % (
                                lab.any(t['id']), v), sig))
    for w in wfs.values():
        o = w['output'] or {}
        if w['state'] == 'SUCCESS' and 'e' in o and o['e'] != ENV['e2']:
            out.append(('C09.env', 'output of %s evaluated env().e2 to %r'
                        % (lab.any(w['id']), o['e']), sig))
    # --- liveness of the root
    if root is not None and root['state'] not in trace.TERMINAL:
        out.append(('C09.parent_child_state',
                    'root execution %s at quiescence; tasks %s' % (
                        root['state'],
                        sorted((lab.any(t['id']), t['state'])
                               for t in tasks.values()
                               if t['state'] not in trace.TASK_DONE)), sig))
    return out


def nontrivial(case, res):
    return sum(1 for w in res.snap['wf'].values()
               if w['task_execution_id']) >= 1 and \
        res.sim.concurrent_steps >= 2


def probes(case, res):
    wfs = res.snap['wf']
    subs = [w for w in wfs.values() if w['task_execution_id']]
    depth = {}
    for w in subs:
        pass
    return {
        'sub_execs': len(subs),
        'sub_error': sum(1 for w in subs if w['state'] == 'ERROR'),
        'sub_cancelled': sum(1 for w in subs if w['state'] == 'CANCELLED'),
        'via_rpc': int(bool(case['config'].get('subwf_via_rpc'))),
        'workbook': int(bool(case['prog'].get('workbook'))),
        'namespace': int(bool(case['defs'].get('namespace'))),
        'mixed_namespaces': int(bool(case.get('def_ns'))),
        'dup': res.sim.stats.get('fault:duplicate', 0),
    }


shrink_candidates = progcase.shrink_candidates
