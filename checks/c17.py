"""C17 - a cron trigger fires once per due time and never more than its
count (dedicated cron harness)."""

import datetime
import random

import croniter

from checks import progcase
from mistralsim import core
from mistralsim import observe
from mistralsim import runner
from mistralsim import world

PLAN = {
    'quick': {'runs': 2500, 'budget': 60},
    'thorough': {'runs': 100000, 'budget': 900},
}
RULE = ('Dedicated harness: 1-3 processor nodes each running the real '
        'process_cron_triggers_v2 pass periodically (so reads, the '
        'compare-and-swap advance / delete and the start_workflow call '
        'interleave), a real engine receiving the start requests, 1-3 '
        'triggers with every combination of pattern / first time / count '
        'owned by two projects (auth enabled, Keystone trust client '
        'faked), clock positions around the due time, long lag, clock '
        'jumps, crash of a processor between advancing and starting; ')
STUBS = ['Keystone trust client -> fixed fake (token / user derived from '
         'the trust id)', 'oslo.service periodic task wrapper -> the pass '
         'function is called by a periodic simulator task']

WF = """
version: '2.0'
cronwf:
  input: [a]
  tasks:
    t:
      action: std.noop
"""
PATTERNS = ['* * * * *', '*/2 * * * *', '*/5 * * * *', '1-59/3 * * * *']


def make_case(seed, tier):
    rng = random.Random(seed)
    case = runner.default_case()
    case['seed'] = seed
    c = case['config']
    c['scheduler_type'] = 'legacy'
    c['engines'] = 1
    c['executor_type'] = 'local'
    c['integrity_delay'] = -1
    c['preempt'] = rng.choice([0.3, 1.0, 1.0])
    c['options'] = {'pecan.auth_enable': True,
                    'cron_trigger.execution_interval':
                    rng.choice([1, 1, 5, 20])}
    case['processors'] = rng.choice([1, 2, 2, 3])
    c['overlap'] = rng.choice([0.0, 0.5, 1.0])
    case['offsets'] = [rng.choice([0, 0, 0.3, 0.7]) for _ in range(3)]
    trigs = []
    for i in range(rng.randint(1, 3)):
        kind = rng.choice(['pattern', 'pattern', 'pattern+count', 'first',
                           'first+pattern+count'])
        t = {'name': 'tr%d' % i, 'project': rng.choice(['proj-a', 'proj-b']),
             'key': 'k%d' % i,
             'input': {'a': 'in-%d' % i},
             'params': {'env': {'who': 'tr%d' % i}}}
        if 'pattern' in kind:
            t['pattern'] = rng.choice(PATTERNS)
        if 'count' in kind:
            t['count'] = rng.choice([1, 2, 3])
        if 'first' in kind:
            t['first_offset_min'] = rng.choice([2, 3])
        if trigs and rng.random() < 0.35:
            # the same trigger name in another project
            o = rng.choice(trigs)
            if o['project'] != t['project'] or rng.random() < 0.5:
                t['name'] = o['name']
                if o['project'] == t['project']:
                    t['project'] = 'proj-b' if o['project'] == 'proj-a' \
                        else 'proj-a'
        trigs.append(t)
    case['triggers'] = trigs
    case['horizon'] = rng.choice([200, 420, 700])
    faults = []
    if rng.random() < 0.3 and case['processors'] > 1:
        faults.append({'at_time': rng.choice([59.5, 60.2, 61, 119.8, 121]),
                       'kind': 'crash', 'node': 'proc%d' % rng.randrange(
                           case['processors'])})
    if rng.random() < 0.25:
        faults.append({'at_time': rng.choice([30, 58, 100, 170]),
                       'kind': 'clock_jump',
                       'seconds': rng.choice([45, 130, 400])})
    if rng.random() < 0.2:
        faults.append({'at_time': rng.choice([50, 110]), 'kind': 'stall',
                       'node': 'proc%d' % rng.randrange(case['processors']),
                       'seconds': rng.choice([30, 150])})
    case['faults'] = faults
    case['max_steps'] = 40000
    return case


class FakeKs(object):
    def __init__(self, trust_id):
        self.session = None
        self.auth_token = 'tok-%s' % trust_id
        self.user_id = 'user-of-%s' % trust_id


class _Trust(object):
    def __init__(self, id_):
        self.id = id_


class Runner17(runner.Runner):
    def setup(self):
        m = world.M
        sim = self.sim
        w = self.world
        case = self.case
        self.starts = []       # start_workflow messages
        self.advances = []     # CAS attempts
        self.patch = []
        sec = m.security
        self._p(sec.keystone, 'client_for_trusts', lambda tid: FakeKs(tid))
        self._p(sec, 'create_trust', lambda: _Trust(
            'trust-%s' % m.auth_ctx.ctx().project_id))
        self._p(sec, 'delete_trust', lambda trust_id=None: None)
        me = self
        sa_api = m.sa_api
        orig_upd = sa_api.update_cron_trigger
        orig_del = sa_api.delete_cron_trigger

        def trig_ids():
            # harness-level read (the calling task holds the baton and no
            # transaction is open)
            from sqlalchemy import text
            with m.db_base.get_engine().connect() as conn:
                return set(r[0] for r in conn.execute(text(
                    'SELECT id FROM cron_triggers_v2')).fetchall())

        def update_cron_trigger(identifier, values, session=None,
                                query_filter=None, **kw):
            r = orig_upd(identifier, values, query_filter=query_filter, **kw)
            if query_filter:
                t = sim.me()
                me.advances.append({
                    'name': identifier, 'kind': 'update',
                    'ids': [r[0].id] if (r[1] > 0 and r[0] is not None)
                    else [],
                    'old': query_filter.get('next_execution_time'),
                    'new': values.get('next_execution_time'),
                    'remaining': values.get('remaining_executions'),
                    'won': r[1] > 0, 'now': sim.now, 'step': sim.step,
                    'node': t.node.name if t and t.node else None})
                sim.count('cron_cas_won' if r[1] > 0 else 'cron_cas_lost')
            return r

        def delete_cron_trigger(identifier, **kw):
            t = sim.me()
            before = trig_ids()
            try:
                r = orig_del(identifier, **kw)
            except Exception:
                me.advances.append({
                    'name': identifier, 'kind': 'delete', 'old': None,
                    'ids': [],
                    'new': None, 'won': False, 'now': sim.now,
                    'step': sim.step,
                    'node': t.node.name if t and t.node else None})
                sim.count('cron_delete_lost')
                raise
            me.advances.append({
                'name': identifier, 'kind': 'delete', 'old': None,
                'ids': sorted(before - trig_ids()),
                'new': None, 'won': bool(r), 'now': sim.now,
                'step': sim.step,
                'node': t.node.name if t and t.node else None})
            return r

        self._p(sa_api, 'update_cron_trigger', update_cron_trigger)
        self._p(sa_api, 'delete_cron_trigger', delete_cron_trigger)

        # definitions + triggers (virtual time = EPOCH, second 0)
        for project in ('proj-a', 'proj-b'):
            m.auth_ctx.set_ctx(world.user_ctx(project))
            try:
                m.wf_service.create_workflows(WF)
            finally:
                m.auth_ctx.set_ctx(None)
        self.created = {}
        for t in case['triggers']:
            m.auth_ctx.set_ctx(world.user_ctx(t['project']))
            try:
                first = None
                if t.get('first_offset_min'):
                    first = (sim.now + datetime.timedelta(
                        minutes=t['first_offset_min'])).replace(
                            second=0, microsecond=0)
                try:
                    trig = m.triggers.create_cron_trigger(
                        t['name'], 'cronwf', dict(t['input']),
                        dict(t['params']), t.get('pattern'), first,
                        t.get('count'), None)
                    self.created[t['key']] = {
                        'id': trig.id, 'project': trig.project_id,
                        'first_next': trig.next_execution_time,
                        'count': trig.remaining_executions,
                        'pattern': t.get('pattern')}
                except Exception as e:
                    self.created[t['key']] = {'error': repr(e)}
            finally:
                m.auth_ctx.set_ctx(None)

        def on_deliver(msg, node):
            if msg.method == 'start_workflow':
                ser = m.net.serializer()
                args = dict((k, ser.deserialize_entity(None, v))
                            for k, v in msg.args.items())
                me.starts.append({'ctx': dict(msg.ctx), 'args': args,
                                  'now': sim.now, 'step': sim.step,
                                  'src': msg.src_node.name
                                  if msg.src_node else None})

        w.net.on_deliver = on_deliver

        # processors
        self.procs = []
        interval = case['config']['options'][
            'cron_trigger.execution_interval']
        for i in range(case['processors']):
            node = world.Node('proc%d' % i, 'api')
            w.nodes.append(node)
            self.procs.append(node)
            off = case['offsets'][i]

            def loop(off=off):
                if off:
                    sim.sleep(off)
                while True:
                    ctx = m.auth_ctx.MistralContext(
                        user_id=None, project_id=None, auth_token=None,
                        is_admin=True)
                    m.auth_ctx.set_ctx(ctx)
                    try:
                        m.periodic.process_cron_triggers_v2(None, ctx)
                    finally:
                        m.auth_ctx.set_ctx(None)
                    sim.sleep(interval)

            t = sim.spawn('cron@proc%d' % i, loop, node=node, kind='cron',
                          daemon=True)
        self.pending_ops = []
        self.pending_faults = []
        for f in case.get('faults') or []:
            sim.add_timer(f['at_time'], 'fault', lambda f=f: self._fault(f))
        self.end_at = sim.now + datetime.timedelta(seconds=case['horizon'])
        sim.add_timer(case['horizon'], 'horizon', lambda: None)

    def _fault(self, f):
        from mistralsim import faults as fmod
        fmod.inject(self, f)
        if f['kind'] in ('clock_jump', 'stall'):
            # keep enough simulated time after the fault
            self.end_at = max(self.end_at, self.sim.now +
                              datetime.timedelta(seconds=f['seconds'] + 90))
            self.sim.add_timer(f['seconds'] + 90, 'horizon2', lambda: None)

    def _p(self, obj, name, val):
        self.patch.append((obj, name, getattr(obj, name)))
        setattr(obj, name, val)

    def unpatch(self):
        for obj, name, val in reversed(getattr(self, 'patch', [])):
            setattr(obj, name, val)
        self.patch = []

    def _until(self, sim):
        if sim.now >= self.end_at:
            self.res.quiescent_reason = 'horizon'
            return True
        return False

    def _collect(self):
        m = world.M
        self.unpatch()
        res = self.res
        res.snap = observe.snapshot()
        res.labels = observe.Labels(res.snap, {})
        res.canon = {}
        m.auth_ctx.set_ctx(world.admin_ctx())
        try:
            with m.db_api.transaction(read_only=True):
                rows = m.db_api.get_cron_triggers(insecure=True)
                res.extra['triggers_left'] = dict(
                    (t.id, {'next': t.next_execution_time, 'name': t.name,
                              'remaining': t.remaining_executions,
                              'project': t.project_id}) for t in rows)
        finally:
            m.auth_ctx.set_ctx(None)
        res.extra['starts'] = self.starts
        res.extra['advances'] = self.advances
        res.extra['created'] = self.created
        res.extra['end'] = self.sim.now
        allx = []
        for label, e in self.sim.task_errors:
            allx.append(('task', label, e, None))
        for step, tlabel, logger, msg, e in self.world.swallowed:
            allx.append(('logged', '%s %s: %s' % (tlabel, logger, msg[:80]),
                         e, None))
        res.all_exceptions = allx
        res.foreign = [x for x in allx if not runner._is_mistral_exc(x[2])]
        res.world_info = {}


def execute(case):
    r = Runner17(case, max_steps=case.get('max_steps', 40000))
    try:
        return r.run()
    finally:
        r.unpatch()


def evaluate(case, res):
    out = []
    faults = case.get('faults') or []
    crashed = any(f['kind'] == 'crash' for f in faults)
    sig = ' '.join(sorted(set(['procs%d' % case['processors']] +
                              ['fault_' + f['kind'] for f in faults])))
    created = res.extra['created']
    interval = case['config']['options']['cron_trigger.execution_interval']
    by_trig = {}
    for s in res.extra['starts']:
        desc = s['args'].get('description') or ''
        for name, c in created.items():
            if c.get('id') and c['id'] in desc:
                by_trig.setdefault(name, []).append(s)
    for t in case['triggers']:
        key = t.get('key', t['name'])
        name = '%s/%s' % (t['project'], t['name'])
        c = created.get(key) or {}
        if 'error' in c or not c.get('id'):
            continue
        wins = [a for a in res.extra['advances']
                if a['won'] and c['id'] in a.get('ids', [])]
        calls = by_trig.get(key, [])
        # one start per successful advance
        if len(calls) > len(wins):
            out.append(('C17.double_fire',
                        'trigger %s: %d workflow starts for %d successful '
                        'advances' % (name, len(calls), len(wins)), sig))
        if len(calls) < len(wins) and not crashed:
            out.append(('C17.missed_fire',
                        'trigger %s: %d successful advances but only %d '
                        'workflow starts' % (name, len(wins), len(calls)),
                        sig))
        # a due value is consumed once
        olds = [a['old'] for a in wins if a['kind'] == 'update']
        if len(set(olds)) != len(olds):
            out.append(('C17.double_fire',
                        'trigger %s: the same next_execution_time was '
                        'advanced twice: %s' % (name, olds), sig))
        prev = None
        for a in wins:
            if a['kind'] != 'update':
                continue
            if a['old'] > a['now'] + datetime.timedelta(seconds=2):
                out.append(('C17.time_backwards',
                            'trigger %s fired at %s for the due time %s '
                            '(more than 2s early)' % (name, a['now'],
                                                      a['old']), sig))
            if not (a['new'] > a['old']):
                out.append(('C17.time_backwards',
                            'trigger %s: next_execution_time moved %s -> %s'
                            % (name, a['old'], a['new']), sig))
            if c.get('pattern'):
                base = a['new'] - datetime.timedelta(seconds=1)
                pt = croniter.croniter(c['pattern'], base).get_next(
                    datetime.datetime)
                if pt != a['new']:
                    out.append(('C17.time_backwards',
                                'trigger %s: %s is not a point of pattern '
                                '%s' % (name, a['new'], c['pattern']), sig))
            prev = a
        # count
        if c.get('count') is not None:
            if len(calls) > c['count']:
                out.append(('C17.over_count',
                            'trigger %s with count %d started %d workflows'
                            % (name, c['count'], len(calls)), sig))
            left = res.extra['triggers_left'].get(c['id'])
            if len(calls) >= c['count'] and left is not None:
                out.append(('C17.over_count',
                            'trigger %s fired %d times (count %d) but still '
                            'exists: %s' % (name, len(calls), c['count'],
                                            left), sig))
        # identity of each call
        for s in calls:
            a = s['args']
            if a.get('wf_input') != t['input'] or \
                    (a.get('params') or {}) != t['params'] or \
                    a.get('wf_identifier') != 'cronwf':
                out.append(('C17.wrong_identity',
                            'trigger %s started %r with input %r params %r'
                            % (name, a.get('wf_identifier'),
                               a.get('wf_input'), a.get('params')), sig))
            if s['ctx'].get('project_id') != c['project']:
                out.append(('C17.wrong_identity',
                            'trigger %s of project %s started a workflow '
                            'as project %r' % (name, c['project'],
                                               s['ctx'].get('project_id')),
                            sig))
        # liveness: nothing due is left behind while a processor is alive
        left = res.extra['triggers_left'].get(c['id'])
        if left is None and c.get('count') is None and c.get('pattern'):
            out.append(('C17.missed_fire',
                        'trigger %s has no count but its row is gone at the '
                        'end of the run' % name, sig))
        if left is not None and (left['project'] != c['project'] or (
                c.get('count') is None and c.get('pattern') and
                left['remaining'] is not None) or (
                c.get('count') is not None and
                left['remaining'] is None)):
            out.append(('C17.wrong_identity',
                        'trigger %s (count %s) ended as %s' % (
                            name, c.get('count'), left), sig))
        alive = case['processors'] - sum(1 for f in faults
                                         if f['kind'] == 'crash')
        stall = max([f['seconds'] for f in faults if f['kind'] == 'stall']
                    or [0])
        if left is not None and alive > 0:
            lag = (res.extra['end'] - left['next']).total_seconds()
            if lag > 2 * interval + 5:
                out.append(('C17.missed_fire',
                            'trigger %s is due since %s at the end of the '
                            'run (%s), %d processors alive' % (
                                name, left['next'], res.extra['end'],
                                alive), sig))
    # executions are created in the right project
    for w in res.snap['wf'].values():
        desc_owner = None
    for kind, where, e, tb in res.foreign:
        out.append(('C17.missed_fire',
                    'unexpected %s in %s: %s' % (type(e).__name__, where,
                                                 str(e)[:200]),
                    sig + ' ' + progcase.exc_signature(e)))
    return out


def nontrivial(case, res):
    return len(res.extra.get('starts') or []) >= 1


def probes(case, res):
    st = res.sim.stats
    return {
        'starts': len(res.extra.get('starts') or []),
        'cas_won': st.get('cron_cas_won', 0),
        'cas_lost': st.get('cron_cas_lost', 0),
        'delete_lost': st.get('cron_delete_lost', 0),
        'triggers_deleted_after_count': sum(
            1 for t in case['triggers'] if t.get('count') and
            ((res.extra.get('created') or {}).get(t.get('key')) or {}).get(
                'id') not in (res.extra.get('triggers_left') or {})),
        'same_name_two_projects': int(len(set(
            t['name'] for t in case['triggers'])) < len(case['triggers'])),
        'create_errors': sum(1 for c in (res.extra.get('created') or {})
                             .values() if 'error' in c),
    }


def shrink_candidates(case):
    import copy
    for i in range(len(case['triggers'])):
        if len(case['triggers']) > 1:
            c = copy.deepcopy(case)
            del c['triggers'][i]
            yield c
    if case['processors'] > 1:
        c = copy.deepcopy(case)
        c['processors'] -= 1
        yield c
