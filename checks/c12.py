"""C12 - rerun or skip of a failed task resumes the run correctly."""

import copy
import random
import re

from checks import c02
from checks import c10
from checks import progcase
from checks import trace
from mistralsim import gen
from mistralsim import ref
from mistralsim import runner

PLAN = {
    'quick': {'runs': 2500, 'budget': 75},
    'thorough': {'runs': 100000, 'budget': 1100},
}
RULE = ('Generated programs forced into ERROR through a chosen task (plain, '
        'with-items, join, inside a sub-workflow, with retry policy); then '
        'rerun (reset on/off) or skip requests through REST with every '
        'outcome of the new attempt, repeated reruns, two requests in '
        'flight at once, and illegal requests (task not in ERROR); ')
FEATS = progcase.CORE + ('with_items', 'retry', 'subwf')


def _all_sim_tasks(prog):
    for w in prog['workflows']:
        for t in w['tasks']:
            if (t.get('body') or {}).get('kind') in ('sync', 'async'):
                yield w, t


def call_paths(prog):
    """workflow name -> list of (tag path, reached through with-items)"""
    by_name = dict((w['name'], w) for w in prog['workflows'])
    by_short = dict((w.get('short', w['name']), w)
                    for w in prog['workflows'])
    out = {}

    def walk(w, path, wi, depth):
        out.setdefault(w['name'], []).append((path, wi))
        if depth > 4:
            return
        for t in w['tasks']:
            b = t.get('body') or {}
            if b.get('kind') != 'wf':
                continue
            c = by_name.get(b.get('wf')) or by_short.get(b.get('wf'))
            if c is None:
                continue
            walk(c, '%s.%s' % (path, t['name']),
                 wi or bool(t.get('with_items')), depth + 1)

    main = prog['workflows'][0]
    walk(main, main['name'], False, 0)
    return out


def wi_nested_case(seed, rng):
    """A with-items task over sub-workflows in which one or two items fail;
    the failed task of every failed sub-workflow is rerun, the requests are
    issued at the same (virtual) time and the reruns take different time,
    so that one sub-workflow finishes while the other is still running."""
    n = rng.choice([2, 3, 3])
    kind = rng.choice(['async', 'async', 'sync'])
    sub = {'name': 'sub1', 'short': 'sub1', 'type': 'direct', 'lang': 'yaql',
           'path_input': True, 'input': [{'x': 1}],
           'tasks': [{'name': 'c0', 'body': {'kind': kind}}],
           'output': {'r': ['res_of', 'c0']}}
    sub.pop('output')
    t0 = {'name': 't0', 'body': {'kind': 'wf', 'wf': 'sub1', 'input': {}},
          'with_items': {'var': 'i', 'n': n,
                         'list': ['const', list(range(n))]},
          'on_success': [{'to': 't1'}]}
    if rng.random() < 0.4:
        t0['concurrency'] = rng.randint(1, n)
    main = {'name': 'main', 'short': 'main', 'type': 'direct',
            'lang': 'yaql', 'path_input': False, 'input': [{'x': 1}],
            'tasks': [t0, {'name': 't1', 'body': {'kind': 'sync'}}]}
    prog = {'workflows': [main, sub], 'workbook': None}
    case = runner.default_case()
    case['seed'] = seed
    case['prog'] = prog
    case['feats'] = ['subwf', 'with_items']
    case['defs'] = gen.render_program(prog)
    case['starts'] = [{'wf': 'main', 'input': {'x': 1}, 'params': {}}]
    case['outcome_seed'] = seed
    case['p_err'] = 0.0
    failing = sorted(rng.sample(range(n), rng.choice([1, 2, 2])))
    case['outcomes'] = {}
    case['async_delays'] = {}
    for j, i in enumerate(failing):
        tag = 'main.t0[%d].c0' % i
        case['outcomes']['%s/0' % tag] = [['err', 'boom'], ['ok', 'fixed%d'
                                                            % i],
                                          ['ok', 'fixed-again']]
        case['async_delays'][tag] = rng.choice([0, 3, 40]) if j == 0 \
            else rng.choice([0, 3, 90])
    progcase.swarm_config(rng, case)
    case['config']['subwf_via_rpc'] = False
    same_time = rng.random() < 0.6
    ops = []
    for j in range(len(failing)):
        ops.append({'op': 'rerun', 'reset': True,
                    'target': {'state': 'ERROR', 'name': 'c0', 'wf': 'sub1',
                               'index': 0 if not same_time else j},
                    'at_step': 5000 if same_time else 5000 + 100 * j})
    case['ops'] = ops
    case['kind'] = 'wi_nested'
    case['fail'] = {'wf': 'sub1', 'task': 'c0', 'item': 0, 'n_fail': 1,
                    'items': failing, 'n': n}
    case['settle'] = 30
    case['max_steps'] = 12000
    return case


def make_case(seed, tier):
    rng = random.Random(seed)
    if rng.random() < 0.08:
        return wi_nested_case(seed, rng)
    hold = False
    for attempt in range(40):
        want_nested = rng.random() < 0.4
        case, rng2 = progcase.program_case(
            seed * 43 + attempt, FEATS, max_tasks=rng.choice([3, 4, 5]),
            p=rng.choice([0.3, 0.5]), p_err_choices=(0.0,),
            force=('subwf',) if want_nested else ())
        cands = list(_all_sim_tasks(case['prog']))
        if not cands:
            continue
        nested = [c for c in cands if c[0].get('path_input')]
        w, t = rng.choice(nested if (want_nested and nested) else cands)
        # no on-error handler for the failing task: the workflow must fail
        # - or (handled variant) the error is handled by an on-error route
        # whose target then fails itself, so that the workflow still ends
        # in ERROR while the failed task has successors
        handled = None
        if not w.get('path_input') and rng.random() < 0.25:
            by_name = dict((x['name'], x) for x in w['tasks'])
            for en in t.get('on_error') or []:
                y = by_name.get(en.get('to'))
                if y is not None and y is not t and \
                        y.get('join') is None and \
                        not y.get('with_items') and \
                        (y.get('body') or {}).get('kind') in ('sync',
                                                              'async'):
                    handled = y
                    break
        if handled is None and not w.get('path_input') and \
                not w.get('task_defaults') and rng.random() < 0.2 and \
                not any(x['name'] == 'eh' for x in w['tasks']):
            handled = {'name': 'eh', 'body': {'kind': 'sync'}}
            w['tasks'].append(handled)
            t['on_error'] = [{'to': 'eh'}]
        if handled is not None:
            keep = [en for en in t['on_error']
                    if en.get('to') == handled['name']][:1]
            t['on_error'] = [{'to': keep[0]['to']}]
            handled.pop('on_error', None)
            handled.pop('on_complete', None)
            handled.pop('retry', None)
        else:
            t.pop('on_error', None)
        t.pop('on_complete', None)
        t.pop('publish_on_error', None)
        (w.get('task_defaults') or {}).pop('on_error', None)
        (w.get('task_defaults') or {}).pop('on_complete', None)
        if rng.random() < 0.4:
            t['on_skip'] = [{'to': x['to']} for x in
                            (t.get('on_success') or [])[:1]]
            if not t['on_skip']:
                del t['on_skip']
        if rng.random() < 0.4:
            t['publish_on_skip'] = {'sk': ['const', 'skipped']}
        # removing the routes must not leave a join without inbound tasks
        routed = set()
        for t2 in w['tasks']:
            for cl in ('on_success', 'on_error', 'on_complete', 'on_skip'):
                for en in (t2.get(cl) or []) + (
                        (w.get('task_defaults') or {}).get(cl) or []):
                    routed.add(en.get('to'))
        if any(t2.get('join') is not None and t2['name'] not in routed
               for t2 in w['tasks']):
            continue
        case['defs'] = gen.render_program(case['prog'])
        n_items = t['with_items']['n'] if t.get('with_items') else 1
        if n_items == 0:
            continue
        tagp = '%s.%s' % (w['name'], t['name'])
        hold = False
        if w.get('path_input'):
            # the failing task sits in a sub-workflow: its action tag is
            # the call path; only a single call site outside with-items
            ps = call_paths(case['prog']).get(w['name']) or []
            if len(ps) != 1 or ps[0][1]:
                continue
            tagp = '%s.%s' % (ps[0][0], t['name'])
            main = case['prog']['workflows'][0]
            if rng.random() < 0.5 and not main.get('task_defaults') and \
                    not any(x['name'] == 'hold' for x in main['tasks']):
                # another branch of the root keeps it RUNNING while the
                # failed task is rerun
                main['tasks'].append({'name': 'hold',
                                      'body': {'kind': 'async'}})
                hold = True
                case['defs'] = gen.render_program(case['prog'])
        fail_item = rng.randrange(n_items)
        retry = t.get('retry') or (w.get('task_defaults') or {}).get('retry')
        n_fail = 1 + (retry['count'] if retry and
                      isinstance(retry.get('count'), int) else 0)
        seq = [['err', 'boom']] * n_fail
        new = rng.choice([['ok', 'fixed'], ['ok', 'fixed'],
                          ['err', 'boom-again']])
        case['outcomes'] = {'%s/%d' % (tagp, fail_item): seq + [new] +
                            [['ok', 'fixed-2']]}
        if handled is not None:
            case['outcomes']['%s.%s/0' % (w['name'], handled['name'])] = \
                [['err', 'boom2']] * 4
            case['handled'] = handled['name']
        case['fail'] = {'wf': w['name'], 'task': t['name'],
                        'item': fail_item, 'n_fail': n_fail}
        rr, rrec0 = progcase.reference(case)
        occ = [k for k in rrec0['tasks'] if re.sub(
            r'(~\d+|#\d+|\[\d+\.\d+\])', '', k).replace('/', '.') == tagp]
        if rr.exact and not rr.racy_tasks and rr.state == 'ERROR' and \
                len(occ) == 1 and 'multi_occurrence' not in \
                progcase.case_tags(case):
            break
    case['seed'] = seed
    progcase.swarm_config(rng, case)
    progcase.avoid_known(case, rng, p_keep=0.03)
    case['config']['subwf_via_rpc'] = False
    kind = rng.choice(['rerun', 'rerun', 'skip', 'rerun2', 'illegal',
                       'rerun_twice'])
    tname = case['fail']['task']
    ops = []
    base = 500
    if hold:
        case['async_delays'] = {'main.hold': 400.0}
        case['hold'] = True
    if kind in ('rerun', 'rerun2', 'rerun_twice'):
        ops.append({'op': 'rerun', 'reset': rng.random() < 0.5,
                    'target': {'state': 'ERROR', 'name': tname,
                               'wf': case['fail']['wf']},
                    'at_step': base})
        if kind == 'rerun2':
            # a second request while the first is in flight
            ops.append({'op': 'rerun', 'reset': rng.random() < 0.5,
                        'target': {'state': 'ERROR', 'name': tname,
                                   'wf': case['fail']['wf']},
                        'at_step': base})
        if kind == 'rerun_twice':
            ops.append({'op': 'rerun', 'reset': True,
                        'target': {'state': 'ERROR', 'name': tname,
                                   'wf': case['fail']['wf']},
                        'at_step': base + 400})
    elif kind == 'skip':
        ops.append({'op': 'skip', 'target': {'state': 'ERROR',
                                             'name': tname,
                                             'wf': case['fail']['wf']},
                    'at_step': base})
    else:
        ops.append({'op': rng.choice(['rerun', 'skip']),
                    'target': {'state': rng.choice(['SUCCESS', 'SUCCESS',
                                                    'RUNNING']),
                               'index': rng.randint(0, 2)},
                    'at_step': rng.choice([base, rng.randint(5, 60)])})
    if hold:
        # while the root is still RUNNING because of the other branch
        for k, o in enumerate(ops):
            if o['at_step'] >= base:
                o['at_time'] = 150.0 + 60.0 * k + (o['at_step'] - base) / 4.0
    case['ops'] = ops
    case['kind'] = kind
    case['settle'] = 30
    case['max_steps'] = 12000
    return case


def execute(case):
    return runner.run_case(case)


def evaluate(case, res):
    out = []
    lab = res.labels
    snap = res.snap
    sig = progcase.tag_signature(case, case.get('kind', ''))
    hist = trace.History(res)
    ok_ops = [o for o in res.ops_log if o['result'] and
              o['result'][0] == 'ok']
    bad_ops = [o for o in res.ops_log if o['result'] and
               o['result'][0] == 'http']
    # --- what each rerun handler did
    handlers = {}
    for cno, step, actor, changes in hist.iterate():
        if not actor.startswith('rpc:rerun_workflow'):
            continue
        h = handlers.setdefault(actor, {'tasks': {}, 'wfs': {},
                                        'rows': None, 'step': step})
        for table, id_, old, new in changes:
            if new is None:
                continue
            if table == trace.TASK:
                h['tasks'][id_] = ((old or {}).get('state'),
                                   new.get('state'),
                                   new.get('runtime_context'))
            if table == trace.WF:
                h['wfs'][id_] = ((old or {}).get('state'),
                                 new.get('state'))
        h['rows'] = (copy.deepcopy(hist.rows[trace.WF]),
                     copy.deepcopy(hist.rows[trace.TASK]))
    if len(handlers) > len(ok_ops) + sum(
            1 for o in res.ops_log if o['result'] and
            o['result'][0] == 'exc'):
        out.append(('C12.illegal_accepted',
                    '%d rerun handlers ran for %d accepted requests' % (
                        len(handlers), len(ok_ops)), sig))
    for o in ok_ops:
        tid = o['target_id']
        t_final = snap['task'].get(tid)
        if t_final is None:
            continue
    # the chain is RUNNING when the rerun transaction commits
    for actor, h in handlers.items():
        wfs, tasks = h['rows']
        rerun_targets = set(o['target_id'] for o in res.ops_log
                            if o['op']['op'] == 'rerun' and o['target_id'])
        for tid, (so, sn, rc) in h['tasks'].items():
            t = tasks.get(tid) or {}
            # (only the task the rerun was asked for: a skip, or a join that
            # a route of the skipped / rerun task reaches again, may finish
            # the workflow through a succeed / fail command in the very
            # same transaction)
            if tid in rerun_targets and so == 'ERROR' and \
                    sn in ('RUNNING', 'WAITING', 'DELAYED'):
                # walk up
                wid = t.get('workflow_execution_id')
                while wid:
                    w = wfs.get(wid) or {}
                    if w.get('state') != 'RUNNING':
                        out.append((
                            'C12.chain_not_running',
                            'after %s the execution %s enclosing task %s '
                            'is %s' % (actor, lab.any(wid), lab.any(tid),
                                       w.get('state')), sig))
                        break
                    ptid = w.get('task_execution_id')
                    if not ptid:
                        break
                    pt = tasks.get(ptid) or {}
                    if pt.get('state') != 'RUNNING':
                        out.append((
                            'C12.chain_not_running',
                            'after %s the parent task %s of %s is %s' % (
                                actor, lab.any(ptid), lab.any(wid),
                                pt.get('state')), sig))
                        break
                    wid = pt.get('workflow_execution_id')
                if sn == 'RUNNING' and rc and 'retry_task_policy' in rc:
                    out.append(('C12.chain_not_running',
                                'policy state of %s was not cleared by the '
                                'rerun: %r' % (lab.any(tid), rc), sig))
            elif so not in ('ERROR', None) and so != sn and \
                    so in ('SUCCESS', 'RUNNING', 'DELAYED', 'WAITING',
                           'IDLE') and tid in [o['target_id']
                                               for o in ok_ops]:
                out.append(('C12.illegal_accepted',
                            '%s changed task %s from %s to %s' % (
                                actor, lab.any(tid), so, sn), sig))
    # a request on a task that is not in ERROR starts nothing
    acts_by_actor = {}
    for e in res.recorder.events:
        if e.op == 'insert' and e.committed and e.table in (trace.ACT,
                                                            trace.WF) \
                and e.vals.get('task_execution_id'):
            acts_by_actor.setdefault(e.task, []).append(e)
    target_ids = set(o['target_id'] for o in res.ops_log if o['target_id'])
    fail = case.get('fail') or {}
    # number of attempts: every accepted rerun of a plain task = one attempt
    for tid in target_ids:
        t = snap['task'].get(tid)
        if t is None or (t['spec'] or {}).get('with-items') or \
                (t['spec'] or {}).get('retry') or \
                (t['spec'] or {}).get('workflow'):
            continue
        if t['name'] != fail.get('task'):
            continue
        wfast = ([w for w in case['prog']['workflows']
                  if w['name'] == fail.get('wf')] or
                 [case['prog']['workflows'][0]])[0]
        if (wfast.get('task_defaults') or {}).get('retry'):
            continue
        n_acts = sum(1 for a in snap['action'].values()
                     if a['task_execution_id'] == tid)
        eff = sum(1 for o in ok_ops if o['target_id'] == tid and
                  o['op']['op'] == 'rerun')
        if n_acts > 1 + eff and t['unique_key'] is None:
            out.append(('C12.double_attempt',
                        'task %s has %d action executions after %d accepted '
                        'rerun requests' % (lab.any(tid), n_acts, eff),
                        sig))
    # illegal requests: declared error and no effect
    for o in res.ops_log:
        if o['op']['op'] not in ('rerun', 'skip') or not o['result']:
            continue
        sb = o.get('state_before')
        if o['result'][0] == 'ok' and sb is not None and sb != 'ERROR':
            # accepted although the task was not in ERROR when the request
            # was made; the engine may still have found it in ERROR only if
            # it failed in between
            t = snap['task'].get(o['target_id']) or {}
            changed = [h for h in handlers.values()
                       if o['target_id'] in h['tasks'] and
                       h['tasks'][o['target_id']][0] != 'ERROR']
            if changed:
                out.append(('C12.illegal_accepted',
                            '%s of task %s (state %s) was accepted' % (
                                o['op']['op'], lab.any(o['target_id']), sb),
                            sig))
        if o['result'][0] == 'http' and o['result'][1] >= 500:
            out.append(('C12.illegal_accepted',
                        'request %s on %s task answered HTTP %s: %s' % (
                            o['op']['op'], sb, o['result'][1],
                            o['result'][2][:200]), sig))
    if out:
        return out
    # a join put back to WAITING by a route that reaches it after it had
    # already failed or run (open finding F3)
    for e in res.recorder.events:
        if e.table == trace.TASK and e.committed and \
                e.vals.get('state') == 'WAITING' and \
                e.old.get('state') not in (None, 'WAITING') and \
                'reset_by_late_route' not in sig:
            sig += ' reset_by_late_route'
    # --- the run finishes: an accepted rerun / skip never leaves the tree
    # unfinished with nothing pending
    if ok_ops and not any(o['result'] and o['result'][0] == 'exc'
                          for o in res.ops_log):
        stuck = [lab.any(w['id']) + '=' + w['state']
                 for w in snap['wf'].values()
                 if w['state'] not in trace.TERMINAL]
        stuck += [lab.any(t['id']) + '=' + t['state']
                  for t in snap['task'].values()
                  if t['state'] in ('RUNNING', 'WAITING', 'DELAYED', 'IDLE')
                  and (snap['wf'].get(t['workflow_execution_id']) or {}).get(
                      'state') not in trace.TERMINAL]
        if stuck:
            out.append(('C12.outcome_vs_ref',
                        'the run did not finish after the accepted %s: %s'
                        % ('/'.join(sorted(set(o['op']['op']
                                               for o in ok_ops))),
                           sorted(stuck)[:6]), sig + ' not_finished'))
            return out
    kind = case.get('kind')
    if kind == 'wi_nested' and len(ok_ops) == len(case['fail']['items']):
        # every failed item was rerun and its new attempt succeeds: the
        # with-items task ends SUCCESS with one accepted SUCCESS execution
        # per item, not before the last of them, and the run goes on
        t0 = [t for t in snap['task'].values() if t['name'] == 't0' and
              not snap['wf'][t['workflow_execution_id']]
              ['task_execution_id']]
        root = [w for w in snap['wf'].values()
                if not w['task_execution_id']]
        subs = [w for w in snap['wf'].values()
                if t0 and w['task_execution_id'] == t0[0]['id']]
        msgs = []
        if not root or root[0]['state'] != 'SUCCESS':
            msgs.append('root is %s' % (root[0]['state'] if root else None))
        if not t0 or t0[0]['state'] != 'SUCCESS':
            msgs.append('with-items task is %s' % (
                t0[0]['state'] if t0 else None))
        per = {}
        for w in subs:
            if w['accepted']:
                i = (w['runtime_context'] or {}).get('index', 0)
                per.setdefault(i, []).append(w['state'])
        for i in range(case['fail']['n']):
            if per.get(i) != ['SUCCESS']:
                msgs.append('item %d has accepted executions %s' % (
                    i, per.get(i)))
        n_t1 = sum(1 for t in snap['task'].values() if t['name'] == 't1')
        if n_t1 != 1:
            msgs.append('follow-up t1 ran %d times' % n_t1)
        # the task completes only after every item has completed
        if t0:
            t_done = None
            sub_done = {}
            sub_ids = set(w['id'] for w in subs)
            for cno, step, actor, changes in hist.iterate():
                for table, id_, old, new in changes:
                    if new is None:
                        continue
                    if table == trace.TASK and id_ == t0[0]['id'] and \
                            new.get('state') in trace.TASK_DONE and \
                            (old or {}).get('state') not in trace.TASK_DONE:
                        t_done = cno
                    if table == trace.WF and id_ in sub_ids and \
                            new.get('state') in trace.TERMINAL and \
                            (old or {}).get('state') not in trace.TERMINAL:
                        sub_done[id_] = cno
            late = [lab.any(i) for i, c in sub_done.items()
                    if t_done is not None and c > t_done]
            if late:
                msgs.append('the with-items task completed (commit %s) '
                            'before its items %s' % (t_done, sorted(late)))
        if msgs:
            out.append(('C12.outcome_vs_ref',
                        'with-items over sub-workflows, items %s rerun: %s'
                        % (case['fail']['items'], '; '.join(msgs)),
                        sig + ' wi_nested'))
        return out
    # --- final outcome vs the reference "as if the new result had been the
    # first" (plain failing task, legal single rerun / skip)
    if kind in ('rerun', 'skip', 'rerun_twice') and ok_ops and fail:
        wfast = [w for w in case['prog']['workflows']
                 if w['name'] == fail['wf']][0]
        tast = [t for t in wfast['tasks'] if t['name'] == fail['task']][0]
        if tast.get('with_items') or tast.get('join') is not None:
            return out
        # "as if the task had produced its new result the first time" is
        # only defined when the failed run stopped at the failure: when an
        # error route of the failed run (a downstream join failing and its
        # on-error / on-complete clause, an on-error of an enclosing task)
        # has already executed tasks, those tasks stay executed
        rr0, rrec0 = progcase.reference(case)
        if any(t.get('state') == 'ERROR' and t.get('has_next')
               for t in rrec0['tasks'].values()):
            res.extra['error_routes_ran'] = True
            return out
        c2 = copy.deepcopy(case)
        key = '%s/%s' % (fail['wf'], fail['task'])
        opts = dict(c2['starts'][0].get('params') or {})
        n_ok = len([o for o in ok_ops if o['op']['op'] in ('rerun',)])
        if kind == 'skip':
            opts['skip'] = [key]
        else:
            # the last accepted rerun starts a fresh run of the task: the
            # reference consumes the outcomes from the first attempt made
            # after it
            tid = [o['target_id'] for o in ok_ops][-1]
            last = max(h['step'] for h in handlers.values()) \
                if handlers else None
            if last is None:
                return out
            shift = sum(1 for e in res.recorder.events
                        if e.op == 'insert' and e.committed and
                        e.table == trace.ACT and
                        e.vals.get('task_execution_id') == tid and
                        e.step <= last and
                        not e.task.startswith('rpc:rerun'))
            opts['shift'] = {key: shift}
        c2['starts'][0]['params'] = opts
        rr, rrec = progcase.reference(c2)
        res.extra['ref_exact'] = rr.exact and not rr.racy_tasks
        if rr.exact and not rr.racy_tasks and rr.state != 'NOT_CREATED':
            canon = copy.deepcopy(res.canon)
            for labk, tk in canon['tasks'].items():
                if labk in rrec['tasks']:
                    rrec['tasks'][labk]['n_execs'] = tk['n_execs']
            diffs = ref.compare(rr, rrec, canon, 'data')
            if diffs:
                inv = 'C12.skip_route' if kind == 'skip' else \
                    'C12.outcome_vs_ref'
                out.append((inv, '; '.join(diffs[:5]), sig))
    return out


def nontrivial(case, res):
    return any(o['result'] and o['result'][0] in ('ok', 'http')
               for o in res.ops_log)


def probes(case, res):
    p = {'kind_' + str(case.get('kind')): 1}
    for o in res.ops_log:
        r = o['result'] or ('none',)
        k = '%s_%s' % (o['op']['op'], r[0] if r[0] != 'http'
                       else 'http%s' % r[1])
        p[k] = p.get(k, 0) + 1
    p['ref_exact'] = int(bool(res.extra.get('ref_exact')))
    p['nested_fail'] = int(bool((case.get('fail') or {}).get('wf')
                                and case['fail']['wf'] !=
                                case['prog']['workflows'][0]['name']))
    p['hold_branch'] = int(bool(case.get('hold')))
    p['handled_variant'] = int(bool(case.get('handled')))
    p['wi_nested'] = int(case.get('kind') == 'wi_nested')
    p['error_routes_ran'] = int(bool(res.extra.get('error_routes_ran')))
    p['final_success'] = int(any(
        w['state'] == 'SUCCESS' and not w['task_execution_id']
        for w in res.snap['wf'].values()))
    return p


shrink_candidates = progcase.shrink_candidates
