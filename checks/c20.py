"""C20 - lost executors and stuck tasks are detected and the run moves on
exactly once."""

import datetime
import random

from checks import progcase
from checks import trace
from mistralsim import gen
from mistralsim import runner
from mistralsim import world

PLAN = {
    'quick': {'runs': 2500, 'budget': 75},
    'thorough': {'runs': 100000, 'budget': 1100},
}
RULE = ('Two scenario kinds. heartbeat: engine with the real heartbeat '
        'checker loop + 1-3 remote executors with the real heartbeat sender '
        'loop; generated programs whose actions take virtual time; an '
        'executor crashes (optionally restarts) at a seeded moment, '
        'heartbeat messages are lost or delayed, the clock jumps next to '
        'the expiry threshold; settings check_interval, '
        'max_missed_heartbeats, first_heartbeat_timeout, batch_size (also '
        'disabled). integrity: two engines, programs with sub-workflows and '
        'with-items, one engine crashes at a seeded step so that '
        'post-commit hand-offs are lost; integrity delay 0/20/disabled; ')
FEATS = ('guards', 'joins', 'on_error', 'on_complete', 'publish', 'errors',
         'async', 'with_items', 'subwf', 'std_actions')
HB_MSG = "Heartbeat wasn't received."


def make_case(seed, tier):
    rng = random.Random(seed)
    kind = rng.choice(['heartbeat', 'heartbeat', 'integrity'])
    feats = FEATS if kind == 'integrity' else tuple(
        f for f in FEATS if f not in ('subwf',))
    case, rng = progcase.program_case(
        seed, feats, max_tasks=rng.choice([2, 3, 4, 5]),
        p=rng.choice([0.3, 0.5]), rng=rng,
        force=('subwf',) if kind == 'integrity' and rng.random() < 0.7
        else ())
    case['kind'] = kind
    c = case['config']
    c['scheduler_type'] = rng.choice(['legacy', 'default'])
    c['executor_type'] = 'remote'
    c['preempt'] = rng.choice([0.3, 1.0])
    c['subwf_via_rpc'] = False
    if kind == 'heartbeat':
        interval = rng.choice([2, 5, 20])
        missed = rng.choice([1, 2, 3])
        c['heartbeats'] = True
        c['engines'] = 1
        c['executors'] = rng.choice([1, 2, 3])
        c['integrity_delay'] = -1
        c['options'] = {
            'action_heartbeat.check_interval': interval,
            'action_heartbeat.max_missed_heartbeats': missed,
            'action_heartbeat.first_heartbeat_timeout':
            rng.choice([0, 10, 60, 3600]),
            'action_heartbeat.batch_size': rng.choice([0, 1, 10]),
        }
        if rng.random() < 0.08:
            c['options']['action_heartbeat.max_missed_heartbeats'] = 0
        thr = interval * missed
        case['body_delay'] = rng.choice([0, 1, thr - 1, thr + 1, 3 * thr,
                                         10 * thr])
        faults = []
        if rng.random() < 0.7:
            node = 'exec%d' % rng.randrange(c['executors'])
            f = {'at_time': rng.choice([0.5, 1, thr / 2.0, thr, 2 * thr]),
                 'kind': 'crash', 'node': node}
            if rng.random() < 0.4:
                f['restart_after'] = rng.choice([1, thr, 3 * thr])
            faults.append(f)
        if rng.random() < 0.3:
            faults.append({'at_time': rng.choice([1, thr - 1, thr + 0.5]),
                           'kind': 'clock_jump',
                           'seconds': rng.choice([thr - 1, thr, thr + 1,
                                                  5 * thr])})
        case['faults'] = faults
        case['hb_loss'] = rng.choice([0.0, 0.0, 0.3, 0.7])
        case['horizon'] = 12 * thr + 4 * interval + 60 + \
            min(c['options']['action_heartbeat.first_heartbeat_timeout'],
                120) + case['body_delay']
    else:
        c['heartbeats'] = False
        c['engines'] = 2
        c['executors'] = 1
        c['integrity_delay'] = rng.choice([0, 0, 20, -1])
        c['options'] = {'engine.execution_integrity_check_batch_size':
                        rng.choice([1, 5])}
        if rng.random() < 0.6:
            # targeted: the engine that commits the completion of the k-th
            # sub-workflow dies before its post-commit hand-off runs
            case['handoff_crash'] = rng.randint(0, 2)
            case['faults'] = []
        else:
            f = {'at_step': rng.randint(5, 160), 'kind': 'crash',
                 'node': 'engine%d' % rng.randrange(2)}
            case['faults'] = [f]
        case['horizon'] = 520
        if rng.random() < 0.5:
            # the sub-workflow is started late (wait-before): the first
            # integrity check (10 s after the start) finds nothing RUNNING,
            # the task gets stuck only afterwards
            changed = False
            for t in case['prog']['workflows'][0]['tasks']:
                if (t.get('body') or {}).get('kind') == 'wf' and \
                        t.get('join') is None and not t.get('with_items'):
                    t['wait_before'] = rng.choice([12, 25])
                    changed = True
            if changed:
                case['defs'] = gen.render_program(case['prog'])
                case['late_subwf'] = True
    case['max_steps'] = 30000
    return case


class Runner20(runner.Runner):
    def setup(self):
        m = world.M
        sim = self.sim
        w = self.world
        case = self.case
        super(Runner20, self).setup()
        self.hb_updates = []   # (action id, now)
        self.hb_dropped = 0
        me = self
        orig = m.sa_api.update_action_execution_heartbeat
        self._orig_hb = orig

        def upd(id, **kw):
            r = orig(id, **kw)
            me.hb_updates.append((id, sim.now, sim.step))
            return r

        m.sa_api.update_action_execution_heartbeat = upd
        bd = case.get('body_delay')
        if bd:
            w.body_delay = lambda tag, item, n: bd
        loss = case.get('hb_loss')
        if loss:
            k = int(round(1.0 / loss)) if loss < 1 else 1

            def hook(net_, msg):
                if msg.method == 'report_running_actions' and \
                        sim.draw(10, '?hbloss') < int(loss * 10):
                    if msg in net_.inflight:
                        net_.inflight.remove(msg)
                        me.hb_dropped += 1
                        sim.count('fault:heartbeat_lost')

            w.net.fault_hook = hook
        if case.get('handoff_crash') is not None:
            state = {'seen': 0, 'node': None, 'done': False}

            def on_commit(rec, c):
                if state['done']:
                    return
                cno, step, actor, evs = c
                for e in evs:
                    if e.table == trace.WF and e.op == 'cas' and \
                            e.vals.get('state') in trace.TERMINAL:
                        row_parent = None
                        for e0 in rec.events:
                            if e0.id == e.id and e0.op == 'insert':
                                row_parent = e0.vals.get('task_execution_id')
                        if row_parent:
                            if state['seen'] == case['handoff_crash']:
                                t = sim.me()
                                state['node'] = t.node if t else None
                                state['done'] = True
                            state['seen'] += 1

            self.rec.on_commit.append(on_commit)

            def monitor(sim_):
                n = state['node']
                if n is not None and n.alive and n.kind == 'engine':
                    state['node'] = None
                    sim_.count('fault:handoff_crash')
                    w.crash_node(n)

            sim.monitors.append(monitor)
        # time-based faults
        tf = [f for f in case.get('faults') or [] if 'at_time' in f]
        self.pending_faults = [f for f in self.pending_faults
                               if 'at_time' not in f]
        for f in tf:
            sim.add_timer(f['at_time'], 'fault', lambda f=f: self._fault(f))
        self.end_at = sim.now + datetime.timedelta(seconds=case['horizon'])
        sim.add_timer(case['horizon'], 'horizon', lambda: None)

    def _fault(self, f):
        from mistralsim import faults as fmod
        fmod.inject(self, f)
        if f['kind'] == 'crash' and f.get('restart_after') is not None:
            node = f['node']
            self.sim.add_timer(
                f['restart_after'], 'restart:' + node,
                lambda: fmod.inject(self, {'kind': 'restart',
                                           'node': node}))
        if f['kind'] == 'clock_jump':
            self.end_at = max(self.end_at, self.sim.now + datetime.timedelta(
                seconds=self.case['horizon']))
            self.sim.add_timer(self.case['horizon'], 'horizon2',
                               lambda: None)

    def inject_fault(self, f):
        self._fault(f)

    def unpatch(self):
        if getattr(self, '_orig_hb', None) is not None:
            world.M.sa_api.update_action_execution_heartbeat = self._orig_hb
            self._orig_hb = None

    def _until(self, sim):
        if self.pending_faults:
            for o in self.pending_faults[:1]:
                o['at_step'] = min(o.get('at_step', 0), sim.step)
            self._inject_due(sim)
            return False
        if sim.now >= self.end_at:
            self.res.quiescent_reason = 'horizon'
            return True
        return False

    def _collect(self):
        self.unpatch()
        super(Runner20, self)._collect()
        self.res.extra['hb_updates'] = self.hb_updates
        self.res.extra['hb_dropped'] = self.hb_dropped
        self.res.extra['end'] = self.sim.now


def execute(case):
    r = Runner20(case, max_steps=case.get('max_steps', 30000))
    try:
        return r.run()
    finally:
        r.unpatch()


def _sec(dt):
    return dt.replace(microsecond=0)


def evaluate(case, res):
    out = []
    lab = res.labels
    snap = res.snap
    c = case['config']
    faults = case.get('faults') or []
    sig = ' '.join(sorted(set([case['kind']] +
                              ['fault_' + f['kind'] for f in faults])))
    hist = trace.History(res)
    if case['kind'] == 'heartbeat':
        o = c['options']
        interval = o['action_heartbeat.check_interval']
        missed = o['action_heartbeat.max_missed_heartbeats']
        thr = interval * missed
        last_hb = {}
        ups = sorted(res.extra['hb_updates'], key=lambda x: x[1])
        expired = {}
        # replay: creation default + heartbeat updates, in step order
        upd_iter = list(ups)
        for cno, step, actor, changes in hist.iterate():
            for table, id_, old, new in changes:
                if table != trace.ACT or new is None:
                    continue
                if old is None:
                    # deadline of the first heartbeat: creation time plus
                    # the configured grace period (from the property, not
                    # from the stored column)
                    fht = o.get('action_heartbeat.first_heartbeat_timeout',
                                0)
                    last_hb[id_] = _sec(res.recorder.commit_times[cno]) + \
                        datetime.timedelta(seconds=fht)
                    continue
                out_ = new.get('output') or {}
                if old.get('state') == 'RUNNING' and \
                        new.get('state') == 'ERROR' and \
                        isinstance(out_, dict) and \
                        HB_MSG in str(out_.get('result')):
                    expired[id_] = (cno, step, actor)
                    # when was that? use the time of the commit: the
                    # events carry no clock, take it from the sim log
                    now = res.recorder.commit_times[cno]
                    hb = last_hb.get(id_)
                    for aid, at, st_ in upd_iter:
                        # a heartbeat overwrites the creation-time deadline
                        if aid == id_ and st_ < step:
                            hb = _sec(at)
                    if not new.get('is_sync', True):
                        out.append(('C20.false_expiry',
                                    'asynchronous action %s was expired' %
                                    lab.any(id_), sig))
                    if missed == 0 or interval == 0:
                        out.append(('C20.false_expiry',
                                    'action %s expired although heartbeats '
                                    'are disabled' % lab.any(id_), sig))
                    elif hb is not None and \
                            (_sec(now) - hb).total_seconds() <= thr - 1:
                        out.append((
                            'C20.false_expiry',
                            'action %s expired at %s, its last heartbeat / '
                            'deadline was %s (threshold %ds)' % (
                                lab.any(id_), now, hb, thr), sig))
                    if old.get('state') != 'RUNNING':
                        out.append(('C20.false_expiry',
                                    'finished action %s was expired' %
                                    lab.any(id_), sig))
        # silent sync actions are expired within the bound
        end = res.extra['end']
        if missed and interval:
            for a in snap['action'].values():
                if a['state'] != 'RUNNING' or not a['is_sync'] or \
                        not a['task_execution_id']:
                    continue
                hb = a['last_heartbeat']
                if hb is None:
                    continue
                silent = (_sec(end) - hb).total_seconds()
                if silent > thr + 3 * interval + 5:
                    out.append((
                        'C20.not_expired',
                        'synchronous action %s is still RUNNING at %s, last '
                        'heartbeat / deadline %s (threshold %ds, interval '
                        '%ds)' % (lab.any(a['id']), end, hb, thr, interval),
                        sig))
        # after expiry the task follows its error handling
        for aid in expired:
            a = snap['action'].get(aid)
            if not a:
                continue
            t = snap['task'].get(a['task_execution_id'])
            if t and t['state'] in ('RUNNING', 'IDLE') and \
                    not (t['spec'] or {}).get('with-items') and \
                    not (t['spec'] or {}).get('retry'):
                out.append(('C20.second_effect',
                            'action %s was expired but its task %s is %s'
                            % (lab.any(aid), lab.any(t['id']), t['state']),
                            sig))
        # a later genuine result changes nothing
        for inv, msg, s2 in trace.lifecycle(case, res, hist):
            if inv in ('C03.action_refinalised', 'C03.finished_wf_changed',
                       'C03.success_task_changed'):
                out.append(('C20.second_effect', msg, sig + ' ' + s2))
    else:
        delay = c['integrity_delay']
        end = res.extra['end']
        alive = 2 - sum(1 for f in faults if f['kind'] == 'crash') - \
            res.sim.stats.get('fault:handoff_crash', 0)
        if delay >= 0 and alive > 0:
            kids = {}
            for a in list(snap['action'].values()) + [
                    w for w in snap['wf'].values()
                    if w['task_execution_id']]:
                kids.setdefault(a['task_execution_id'], []).append(a)
            for t in snap['task'].values():
                if t['state'] != 'RUNNING':
                    continue
                w = snap['wf'][t['workflow_execution_id']]
                if w['state'] in trace.TERMINAL or w['state'] == 'PAUSED':
                    continue
                ch = kids.get(t['id'], [])
                if not ch or not all(x['state'] in trace.TERMINAL
                                     for x in ch):
                    continue
                newest = max((x['updated_at'] or x['created_at'])
                             for x in ch)
                idle = (_sec(end) - newest).total_seconds()
                if idle > delay + 120 + 2 * 120 + 10:
                    # the check only looks at the first <batch size> RUNNING
                    # tasks of the execution (no order, no rotation): open
                    # finding F39
                    bs = (c.get('options') or {}).get(
                        'engine.execution_integrity_check_batch_size', 5)
                    n_run = sum(1 for x in snap['task'].values()
                                if x['workflow_execution_id'] ==
                                t['workflow_execution_id'] and
                                x['state'] == 'RUNNING')
                    if bs and n_run > bs:
                        sig = (sig + ' integrity_batch_starved').strip()
                    out.append((
                        'C20.stuck_not_fixed',
                        'task %s is RUNNING, all its %d children finished '
                        '(latest at %s), run ended at %s, integrity delay '
                        '%ds' % (lab.any(t['id']), len(ch), newest, end,
                                 delay), sig))
        comps = {}
        for cno, step, actor, changes in hist.iterate():
            for table, id_, old, new in changes:
                if table == trace.TASK and old is not None and \
                        new is not None and \
                        new.get('state') in trace.TASK_DONE and \
                        old.get('state') not in trace.TASK_DONE:
                    comps[id_] = comps.get(id_, 0) + 1
        resets = trace.reset_by_route_ids(res)
        for tid, n in comps.items():
            t = snap['task'].get(tid)
            if n > 1 and t and not (t['spec'] or {}).get('retry') and \
                    tid not in resets:
                out.append(('C20.stuck_not_fixed',
                            'task %s was completed %d times' % (
                                lab.any(tid), n), sig))
    for kind, where, e, tb in res.foreign:
        if isinstance(e, ValueError) and 'already completed' in str(e):
            continue
        if type(e).__name__ == 'RemoteError' and \
                'already completed' in str(e):
            continue
        if 'Timeout after' in str(e):
            continue
        out.append(('C20.batch_poisoned',
                    'unexpected %s in %s: %s' % (type(e).__name__, where,
                                                 str(e)[:200]),
                    sig + ' ' + progcase.exc_signature(e)))
    return out


def _time_of_step(res, step):
    """virtual time at which a step ran (from the simulator log)."""
    tl = res.extra.get('_step_times')
    if tl is None:
        tl = []
        from mistralsim import core
        now = core.EPOCH
        for e in res.sim.log:
            if e[2] == 'clock':
                now = core.EPOCH + datetime.timedelta(seconds=float(e[3]))
            tl.append((e[0], now))
        res.extra['_step_times'] = tl
    best = None
    for s, t in tl:
        if s <= step:
            best = t
        else:
            break
    return best


def nontrivial(case, res):
    if case['kind'] == 'heartbeat':
        return len(res.extra.get('hb_updates') or []) >= 1
    return res.sim.stats.get('fault:crash:engine', 0) >= 1 or \
        res.sim.stats.get('fault:handoff_crash', 0) >= 1


def probes(case, res):
    snap = res.snap
    st = res.sim.stats
    return {
        'kind_' + case['kind']: 1,
        'expired_actions': sum(
            1 for a in snap['action'].values()
            if HB_MSG in str((a['output'] or {}).get('result'))),
        'hb_updates': len(res.extra.get('hb_updates') or []),
        'hb_lost': res.extra.get('hb_dropped', 0),
        'executor_crash': st.get('fault:crash:executor', 0),
        'engine_crash': st.get('fault:crash:engine', 0),
        'integrity_repairs': st.get('probe:integrity_repair', 0),
        'late_subwf': int(bool(case.get('late_subwf'))),
        'root_unfinished': sum(1 for w in snap['wf'].values()
                               if not w['task_execution_id'] and
                               w['state'] not in trace.TERMINAL),
    }


shrink_candidates = progcase.shrink_candidates
