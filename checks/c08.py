"""C08 - task policies bound and shape execution as documented."""

import datetime
import random

from checks import progcase
from checks import trace
from mistralsim import gen
from mistralsim import ref
from mistralsim import runner

PLAN = {
    'quick': {'runs': 3000, 'budget': 75},
    'thorough': {'runs': 120000, 'budget': 1100},
}
RULE = ('Generated programs of 1-4 tasks carrying retry (count, delay, '
        'break-on, continue-on), wait-before, wait-after, timeout, fail-on '
        'and pause-before, given as literals or expressions, at task level '
        'or in task-defaults; per-attempt outcomes; action durations placed '
        'just before / at / after the timeout; both schedulers with varied '
        'poll delays, scheduler crash/restart between schedule and fire; ')
ASSUMPTIONS = ['timing is compared in whole seconds, the resolution the '
               'system stores (utc_now_sec)']


def _maybe_expr(rng, v, var):
    """literal or expression form of a numeric policy parameter"""
    if rng.random() < 0.3:
        return ['var', var], v
    return v, v


def make_case(seed, tier):
    rng = random.Random(seed)
    lang = rng.choice(['yaql', 'yaql', 'jinja'])
    n = rng.randint(1, 4)
    names = ['t%d' % i for i in range(n)]
    inputs = {'x': 1}
    tasks = []
    durations = {}
    policies = {}
    for i, nm in enumerate(names):
        t = {'name': nm, 'body': {'kind': rng.choice(['sync', 'sync',
                                                      'async'])}}
        pol = {}
        r = rng.random()
        if r < 0.35:
            cnt = rng.randint(0, 3)
            dly = rng.choice([0, 1, 2, 5, 30])
            cexpr, _ = _maybe_expr(rng, cnt, 'rc%d' % i)
            dexpr, _ = _maybe_expr(rng, dly, 'rd%d' % i)
            inputs['rc%d' % i] = cnt
            inputs['rd%d' % i] = dly
            t['retry'] = {'count': cexpr, 'delay': dexpr}
            pol['retry'] = (cnt, dly)
            rr = rng.random()
            if rr < 0.25:
                t['retry']['break_on'] = ['eq', ['res'], ['const', 'brk']]
            elif rr < 0.5:
                t['retry']['continue_on'] = ['eq', ['res'],
                                             ['const', 'again']]
        elif r < 0.5:
            w = rng.choice([1, 2, 7, 40])
            e, _ = _maybe_expr(rng, w, 'wb%d' % i)
            inputs['wb%d' % i] = w
            t['wait_before'] = e
            pol['wait_before'] = w
        elif r < 0.65:
            w = rng.choice([1, 2, 7, 40])
            e, _ = _maybe_expr(rng, w, 'wa%d' % i)
            inputs['wa%d' % i] = w
            t['wait_after'] = e
            pol['wait_after'] = w
        elif r < 0.85:
            to = rng.choice([2, 5, 20])
            e, _ = _maybe_expr(rng, to, 'to%d' % i)
            inputs['to%d' % i] = to
            t['timeout'] = e
            pol['timeout'] = to
            durations[nm] = rng.choice([0, to - 2, to - 1, to, to + 1,
                                        to + 2, 3 * to])
        elif r < 0.93:
            if rng.random() < 0.5:
                t['fail_on'] = ['eq', ['res'], ['const', 'stop']]
            else:
                t['fail_on'] = rng.random() < 0.6
            pol['fail_on'] = True
        else:
            t['pause_before'] = True
            pol['pause_before'] = True
        policies[nm] = pol
        if rng.random() < 0.5:
            t['publish'] = {'p%d' % i: ['res']}
        tasks.append(t)
    for i, t in enumerate(tasks[:-1]):
        later = names[i + 1:]
        if rng.random() < 0.8:
            t['on_success'] = [{'to': x} for x in
                               rng.sample(later, min(len(later),
                                                     rng.choice([1, 1, 2])))]
        if rng.random() < 0.4:
            t['on_error'] = [{'to': rng.choice(later)}]
    # tasks with two inbound edges become joins
    inbound = {}
    for t in tasks:
        for cl in ('on_success', 'on_error'):
            for en in t.get(cl) or []:
                inbound.setdefault(en['to'], set()).add(t['name'])
    for t in tasks:
        if len(inbound.get(t['name'], ())) > 1:
            t['join'] = 'all'
            t.pop('retry', None)
            policies[t['name']].pop('retry', None)
    wf = {'name': 'main', 'short': 'main', 'type': 'direct', 'lang': lang,
          'tasks': tasks, 'path_input': False,
          'input': [dict([(k, v)]) for k, v in sorted(inputs.items())]}
    if rng.random() < 0.15:
        # policies through task-defaults only: combinations of two policy
        # kinds on one task are not specified by the documentation (and
        # retry after timeout is documented not to work)
        td = {}
        if rng.random() < 0.5:
            td['retry'] = {'count': 1, 'delay': 1}
        else:
            td['wait_before'] = 1
        wf['task_defaults'] = td
        for t in tasks:
            for k in ('retry', 'wait_before', 'wait_after', 'timeout',
                      'fail_on', 'pause_before'):
                t.pop(k, None)
        durations.clear()
    # before-start policies on joins: see KNOWN_FINDINGS F11; keep a few
    if rng.random() < 0.9:
        for t in tasks:
            if t.get('join') is not None:
                for k in ('wait_before', 'timeout', 'pause_before'):
                    t.pop(k, None)
        if wf.get('task_defaults', {}).get('wait_before') and any(
                t.get('join') is not None for t in tasks):
            del wf['task_defaults']
    prog = {'workflows': [wf], 'workbook': None}
    case = runner.default_case()
    case['seed'] = seed
    case['prog'] = prog
    case['feats'] = sorted(set(k for p in policies.values() for k in p))
    case['defs'] = gen.render_program(prog)
    case['starts'] = [{'wf': 'main', 'input': {}, 'params': {}}]
    case['outcome_seed'] = seed
    case['p_err'] = rng.choice([0.0, 0.3, 0.5])
    case['durations'] = durations
    case['policies'] = policies
    progcase.swarm_config(rng, case, engines=(1, 1, 2))
    case['config']['options'] = {'scheduler.fixed_delay':
                                 rng.choice([1, 1, 2])}
    if any(p.get('pause_before') for p in policies.values()):
        case['ops'] = [{'op': 'resume', 'target': 'root',
                        'at_step': rng.randint(60, 200)}]
    if rng.random() < 0.15 and case['config']['scheduler_type'] == 'default':
        k = rng.randint(10, 80)
        case['faults'] = [
            {'at_step': k, 'kind': 'crash', 'node': 'engine0'},
            {'at_step': k + rng.randint(0, 5), 'kind': 'restart',
             'node': 'engine0'}]
        case['config']['engines'] = 2
    # a task that is failed by its timeout is rerun (with and without
    # reset) once the run has drained: the policies apply to the new run of
    # the task as they did to the first one
    slow = [nm for nm in names if policies[nm].get('timeout') and
            durations.get(nm, 0) > policies[nm]['timeout'] + 3 and
            any(t['name'] == nm and t.get('join') is None and
                not t.get('on_error') and not t.get('on_complete')
                for t in tasks)]
    if slow and not case.get('faults') and not wf.get('task_defaults') \
            and rng.random() < 0.6:
        reset = rng.random() < 0.5
        case['ops'] = list(case.get('ops') or []) + [
            {'op': 'rerun', 'reset': reset,
             # the REST API only accepts reset=false for with-items tasks;
             # the engine entry point (RPC) takes it for any task
             'via': 'rest' if reset else 'engine',
             'target': {'state': 'ERROR', 'name': rng.choice(slow)},
             'at_step': 9000}]
        case['rerun_timeout'] = True
    case['settle'] = 150
    case['max_steps'] = 12000
    return case


class Runner8(runner.Runner):
    def setup(self):
        super(Runner8, self).setup()
        durs = self.case.get('durations') or {}

        def body_delay(tag, item, n):
            return durs.get(tag.split('.')[-1], 0)

        self.world.body_delay = body_delay


def execute(case):
    return Runner8(case).run()


def _sec(dt):
    return dt.replace(microsecond=0) if dt else dt


def derive_policies(case):
    """Policy parameters per task, read from the (possibly shrunk) AST."""
    wf = case['prog']['workflows'][0]
    inp = {}
    for i in wf.get('input') or []:
        if isinstance(i, dict):
            inp.update(i)
    inp.update(case['starts'][0].get('input') or {})

    def val(v):
        if isinstance(v, list):
            if v[0] == 'var':
                return inp.get(v[1])
            if v[0] == 'const':
                return v[1]
            return None
        return v

    pols = {}
    for t in wf['tasks']:
        p = {}
        if t.get('retry'):
            p['retry'] = (val(t['retry']['count']), val(t['retry']['delay']))
        for k in ('wait_before', 'wait_after', 'timeout'):
            if t.get(k) is not None:
                p[k] = val(t[k])
        if t.get('fail_on') is not None:
            p['fail_on'] = True
        if t.get('pause_before'):
            p['pause_before'] = True
        pols[t['name']] = p
    return pols


def evaluate(case, res):
    out = []
    snap = res.snap
    lab = res.labels
    sig = progcase.tag_signature(case)
    pols = derive_policies(case)
    crashed = any(f['kind'] == 'crash' for f in case.get('faults') or [])
    td = case['prog']['workflows'][0].get('task_defaults') or {}
    acts = {}
    for a in snap['action'].values():
        acts.setdefault(a['task_execution_id'], []).append(a)
    rec = res.recorder
    created_step = dict((e.id, e) for e in rec.events if e.op == 'insert')
    by_name = {}
    for t in snap['task'].values():
        by_name.setdefault(t['name'], []).append(t)
    reruns = {}
    for o in res.ops_log:
        if o['op']['op'] == 'rerun' and o['result'] and \
                o['result'][0] == 'ok' and o.get('target_id'):
            reruns[o['target_id']] = reruns.get(o['target_id'], 0) + 1
    for t in snap['task'].values():
        p = pols.get(t['name'], {})
        al = sorted(acts.get(t['id'], []),
                    key=lambda a: (a['created_at'],
                                   rec.insert_order().get(a['id'], 0)))
        # ---- retry
        rt = p.get('retry')
        if rt is None and td.get('retry'):
            rt = (td['retry']['count'], td['retry']['delay'])
        if rt is not None:
            cnt, dly = rt
            if len(al) > cnt + 1:
                out.append(('C08.attempts',
                            'task %s made %d attempts with retry count %d'
                            % (lab.any(t['id']), len(al), cnt), sig))
            for a, b in zip(al, al[1:]):
                gap = (_sec(b['created_at']) -
                       _sec(a['created_at'])).total_seconds()
                if gap < dly:
                    out.append((
                        'C08.retry_early',
                        'task %s: attempts created %s and %s, %ds apart, '
                        'retry delay is %ds' % (
                            lab.any(t['id']), a['created_at'],
                            b['created_at'], gap, dly),
                        sig + (' join_retry' if (t['spec'] or {}).get(
                            'join') is not None else '')))
            if t['state'] in trace.TASK_DONE and al and not crashed and \
                    t['state'] != 'CANCELLED' and \
                    'timed out' not in (t['state_info'] or '') and \
                    'Failed to' not in (t['state_info'] or ''):
                last = al[-1]
                ok_last = last['state'] == 'SUCCESS'
                if (t['state'] == 'SUCCESS') != ok_last and \
                        not p.get('fail_on'):
                    out.append((
                        'C08.attempts',
                        'task %s is %s but its last attempt is %s' % (
                            lab.any(t['id']), t['state'], last['state']),
                        sig))
        elif len(al) > 1 + reruns.get(t['id'], 0) and not crashed:
            out.append(('C08.attempts',
                        'task %s without retry policy has %d action '
                        'executions' % (lab.any(t['id']), len(al)), sig))
        # ---- wait-before
        wb = p.get('wait_before')
        if wb is None and td.get('wait_before') and not p:
            wb = td['wait_before']
        if wb and al:
            t0 = t['created_at']
            if (t['spec'] or {}).get('join') is not None:
                t0 = t['started_at'] or t0
            gap = (_sec(al[0]['created_at']) - _sec(t0)).total_seconds()
            if gap < wb:
                out.append(('C08.wait_before_early',
                            'task %s created %s, first action %s: %ds < '
                            'wait-before %ds' % (
                                lab.any(t['id']), t['created_at'],
                                al[0]['created_at'], gap, wb), sig))
        # ---- wait-after
        wa = p.get('wait_after')
        if wa and al and t['state'] in trace.TASK_DONE:
            done_at = max(a['updated_at'] or a['created_at'] for a in al)
            for nxt, ev in (t['next_tasks'] or []):
                for f in by_name.get(nxt, []):
                    tb = (f['runtime_context'] or {}).get('triggered_by') \
                        or []
                    if (f['spec'] or {}).get('join') is None and \
                            t['id'] not in [x.get('task_id') for x in tb]:
                        continue
                    gap = (_sec(f['created_at']) -
                           _sec(done_at)).total_seconds()
                    if gap < wa and (f['spec'] or {}).get('join') is None:
                        out.append((
                            'C08.wait_after_lost',
                            'follow-up %s of %s created %ds after the '
                            'action finished, wait-after is %ds' % (
                                lab.any(f['id']), lab.any(t['id']), gap,
                                wa), sig))
        # ---- timeout
        to = p.get('timeout')
        if to and al:
            dur = (case.get('durations') or {}).get(t['name'], 0)
            timed_out = 'Task timed out' in (t['state_info'] or '')
            if timed_out and dur < to - 1 and not crashed and \
                    (t['spec'] or {}).get('action') == 'sim.sync':
                out.append(('C08.timeout_verdict',
                            'task %s timed out (timeout %ds) although its '
                            'action took %ds' % (lab.any(t['id']), to, dur),
                            sig))
            if timed_out:
                started = _sec(t['started_at'] or t['created_at'])
                fin = _sec(t['finished_at'] or t['updated_at'])
                if (fin - started).total_seconds() < to:
                    out.append(('C08.timeout_verdict',
                                'task %s failed by timeout %ds after only '
                                '%ds' % (lab.any(t['id']), to,
                                         (fin - started).total_seconds()),
                                sig))
            if not timed_out and dur > to + 3 and not crashed and \
                    t['state'] in trace.TASK_DONE and \
                    (t['spec'] or {}).get('action') == 'sim.sync' and \
                    not p.get('retry') and \
                    'Failed to' not in (t['state_info'] or ''):
                out.append(('C08.timeout_verdict',
                            'task %s (timeout %ds) is %s although its '
                            'action took %ds' % (lab.any(t['id']), to,
                                                 t['state'], dur), sig))
    # ---- pause-before: no action before a resume
    hist = trace.History(res)
    resumed = {}
    wf_paused_seen = {}
    for cno, step, actor, changes in hist.iterate():
        for table, id_, old, new in changes:
            if new is None:
                continue
            if table == trace.WF and old is not None and \
                    old.get('state') == 'PAUSED' and \
                    new.get('state') == 'RUNNING':
                resumed[id_] = cno
            if table == trace.ACT and old is None:
                tk = hist.rows[trace.TASK].get(new.get('task_execution_id'))
                if tk is not None and pols.get(tk.get('name'), {}).get(
                        'pause_before'):
                    wid = tk.get('workflow_execution_id')
                    if wid not in resumed:
                        out.append((
                            'C08.pause_before',
                            'action of task %s (pause-before) created at '
                            'step %d before any resume' % (
                                lab.any(tk['id']), step), sig))
    # ---- lifecycle of completed tasks vs late timers
    for inv, msg, s2 in trace.lifecycle(case, res, hist):
        if inv in ('C03.success_task_changed', 'C03.finished_wf_changed'):
            out.append(('C08.timeout_verdict', msg, sig + ' ' + s2))
    # ---- reference (attempt counts, fail-on, follow-ups) when no timer can
    # interfere
    risky = any(p.get('timeout') or p.get('pause_before')
                for p in pols.values()) or crashed
    if not out and not risky:
        rr, rrec = progcase.reference(case)
        res.extra['ref_exact'] = rr.exact and not rr.racy_tasks
        if rr.exact and not rr.racy_tasks and rr.state != 'NOT_CREATED':
            diffs = ref.compare(rr, rrec, res.canon, 'data')
            if diffs:
                inv = 'C08.attempts'
                if any('fail' in str(pols.get(n)) for n in pols):
                    inv = 'C08.fail_on' if 'state' in diffs[0] else inv
                out.append((inv, '; '.join(diffs[:5]), sig))
    # ---- liveness: nothing left DELAYED / RUNNING unless paused
    for w in snap['wf'].values():
        if w['state'] not in trace.TERMINAL and w['state'] != 'PAUSED' \
                and not w['task_execution_id'] and not crashed:
            out.append(('C08.wait_after_lost',
                        'execution %s is %s at quiescence; tasks %s' % (
                            lab.any(w['id']), w['state'],
                            sorted((t['name'], t['state'])
                                   for t in snap['task'].values())), sig))
    return out


def nontrivial(case, res):
    return bool(case.get('feats')) and res.sim.vtime() > 0


def probes(case, res):
    snap = res.snap
    p = {}
    for f in case.get('feats') or []:
        p['policy_' + f] = 1
    p['timed_out'] = sum(1 for t in snap['task'].values()
                         if 'Task timed out' in (t['state_info'] or ''))
    p['retried_tasks'] = sum(
        1 for t in snap['task'].values()
        if (t['runtime_context'] or {}).get('retry_task_policy'))
    p['rerun_after_timeout'] = sum(
        1 for o in res.ops_log if o['op']['op'] == 'rerun' and o['result']
        and o['result'][0] == 'ok')
    p['crash_restart'] = int(any(f['kind'] == 'crash'
                                 for f in case.get('faults') or []))
    p['ref_exact'] = int(bool(res.extra.get('ref_exact')))
    return p


def shrink_candidates(case):
    for c in progcase.shrink_candidates(case):
        yield c
