"""C04 - no task starts before its prerequisites; a join runs exactly once;
reverse workflows run exactly the closure of the target in order."""

import random

from checks import progcase
from checks import trace
from mistralsim import gen
from mistralsim import runner

PLAN = {
    'quick': {'runs': 4000, 'budget': 75},
    'thorough': {'runs': 150000, 'budget': 1100},
}
RULE = ('Generated fork/join programs (full and partial joins, joins fed by '
        'on-error / on-complete / guarded routes, nested joins, '
        'task-defaults routes) and reverse requires-graphs with unrelated '
        'tasks; message latencies make every completion order of the '
        'inbound branches reachable; ')
FEATS = ('guards', 'joins', 'partial_joins', 'on_error', 'on_complete',
         'errors', 'publish', 'task_defaults', 'async', 'std_actions',
         'with_items', 'subwf', 'retry', 'bad_expr')
FORCE = ('joins',)


def gen_reverse(rng, n):
    names = ['r%d' % i for i in range(n)]
    tasks = []
    for i, nm in enumerate(names):
        t = {'name': nm, 'body': {'kind': rng.choice(['sync', 'sync',
                                                      'async'])}}
        if i > 0:
            k = rng.choice([0, 1, 1, 2])
            req = rng.sample(names[:i], min(k, i))
            if req:
                t['requires'] = sorted(req)
        if rng.random() < 0.4:
            t['publish'] = {'v%d' % i: ['res']}
        tasks.append(t)
    target = rng.choice(names)
    wf = {'name': 'main', 'short': 'main', 'type': 'reverse', 'lang': 'yaql',
          'tasks': tasks, 'input': [{'x': 1}], 'target': target,
          'path_input': False}
    if n > 1 and rng.random() < 0.35:
        # prerequisites through 'task-defaults: requires' (every task other
        # than r0 requires r0 in addition to what it declares itself)
        wf['task_defaults'] = {'requires': ['r0']}
        for t in tasks:
            t['own_requires'] = list(t.get('requires') or [])
            if t['name'] != 'r0':
                t['requires'] = sorted(set(t['own_requires']) | {'r0'})
    return {'workflows': [wf], 'workbook': None}


def make_case(seed, tier):
    rng = random.Random(seed)
    if rng.random() < 0.2:
        prog = gen_reverse(rng, rng.randint(2, 7))
        case = runner.default_case()
        case['seed'] = seed
        case['prog'] = prog
        case['feats'] = ['reverse']
        case['defs'] = gen.render_program(prog)
        case['starts'] = [{'wf': 'main', 'input': {'x': 1},
                           'params': {'task_name':
                                      prog['workflows'][0]['target']}}]
        case['outcome_seed'] = seed
        case['p_err'] = rng.choice([0.0, 0.0, 0.2])
    else:
        case, rng = progcase.program_case(
            seed, FEATS, max_tasks=rng.choice([4, 5, 6, 7]),
            p=rng.choice([0.4, 0.6]), rng=rng, force=FORCE)
    progcase.swarm_config(rng, case)
    progcase.avoid_known(case, rng)
    case['latency'] = rng.choice([0, 0, 1.0, 4.0])
    return case


class Runner4(runner.Runner):
    def setup(self):
        super(Runner4, self).setup()
        lat = self.case.get('latency')
        if lat:
            sim = self.sim

            def latency(msg):
                if msg.method in ('on_action_complete', 'run_action',
                                  'start_task') and sim.draw(2, '?lat') == 0:
                    return lat * (1 + sim.draw(5, '?lat2'))
                return 0.0

            self.world.net.latency = latency


def execute(case):
    return Runner4(case).run()


def evaluate(case, res):
    out = []
    hist = trace.History(res)
    for inv, msg, sig in trace.join_order(case, res, hist):
        out.append((inv, msg, progcase.tag_signature(case, sig)))
    for inv, msg, sig in trace.reverse_set(case, res):
        out.append((inv, msg, progcase.tag_signature(case, sig)))
    return out


def nontrivial(case, res):
    tags = progcase.case_tags(case)
    return res.sim.concurrent_steps >= 2 and (
        'join' in tags or 'reverse' in tags)


def probes(case, res):
    snap = res.snap
    joins = [t for t in snap['task'].values() if t['unique_key']]
    return {
        'joins_run': len(joins),
        'joins_failed': sum(1 for t in joins if t['state'] == 'ERROR' and
                            'Failed by' in (t['state_info'] or '')),
        'joins_waiting_in_stopped_wf': sum(1 for t in joins
                                           if t['state'] == 'WAITING'),
        'reverse': int('reverse' in progcase.case_tags(case)),
        'refresh_saw_waiting': res.sim.stats.get('probe:refresh_saw_waiting', 0),
    }


shrink_candidates = progcase.shrink_candidates
