"""C06 - duplicate or redelivered messages have the effect of a single
delivery."""

import copy
import hashlib
import random

from checks import c02
from checks import progcase
from mistralsim import observe
from mistralsim import runner

PLAN = {
    'quick': {'runs': 2500, 'budget': 75},
    'thorough': {'runs': 100000, 'budget': 1100},
}
RULE = ('Each evaluation = one generated schedule-independent program run '
        'once without and once with seeded duplication (x1 / x2, delivered '
        'at any later point, also after the workflow finished) of '
        'on_action_complete, start_task, start_workflow carrying an '
        'execution id, sub-workflow hand-offs and run_action (copies flagged '
        'redelivered, safe-rerun on and off); ')
FEATS = progcase.CORE + ('with_items', 'concurrency', 'subwf', 'retry')
DUP_METHODS = ('on_action_complete', 'start_task', 'start_workflow',
               'run_action')
WF_EX_ID = '0000c0de-0000-4000-8000-000000000001'


def make_case(seed, tier):
    rng = random.Random(seed)
    for attempt in range(30):
        case, rng2 = progcase.program_case(
            seed * 37 + attempt, FEATS, max_tasks=rng.choice([3, 4, 5, 6]),
            p=rng.choice([0.3, 0.5]), p_err_choices=(0.0, 0.2))
        rr, _ = progcase.reference(case)
        if rr.exact and not rr.racy_tasks and rr.state != 'NOT_CREATED':
            break
    case['seed'] = seed
    progcase.swarm_config(rng, case)
    progcase.avoid_known(case, rng, p_keep=0.03)
    case['config']['subwf_via_rpc'] = False
    case['starts'][0]['wf_ex_id'] = WF_EX_ID
    methods = [m for m in DUP_METHODS if rng.random() < 0.6] or \
        ['on_action_complete']
    if rng.random() < 0.6 and 'run_action' in methods:
        methods.remove('run_action')
    case['dup'] = {'methods': methods,
                   'p': rng.choice([0.15, 0.3, 0.6]),
                   'copies': rng.choice([1, 1, 2]),
                   'delays': rng.choice([[0], [0, 1], [0, 5, 90]])}
    # safe-rerun on some tasks
    if rng.random() < 0.4:
        for w in case['prog']['workflows']:
            for t in w['tasks']:
                if rng.random() < 0.5 and (t.get('body') or {}).get(
                        'kind') in ('sync', 'async'):
                    t['safe_rerun'] = True
        from mistralsim import gen
        case['defs'] = gen.render_program(case['prog'])
    case['settle'] = 100
    return case


class Runner6(runner.Runner):
    def __init__(self, case, dup):
        super(Runner6, self).__init__(case)
        self.dup = dup
        self.results_sent = {}     # action_ex_id -> count from executors
        self.run_delivered = {}    # action_ex_id -> [redelivered flags]
        self.dup_made = []

    def setup(self):
        super(Runner6, self).setup()
        net = self.world.net
        sim = self.sim
        dup = self.dup
        me = self

        def hook(net_, m):
            if m.method == 'on_action_complete' and m.src_node is not None \
                    and getattr(m.src_node, 'kind', '') in ('executor',
                                                             'engine') and \
                    m.copy_no == 0:
                # results produced by the executor code (remote executor
                # node, or the local executor inside an engine node)
                pass
            if not dup or m.is_reply or m.copy_no:
                return
            if m.method not in dup['methods']:
                return
            if m.method == 'start_workflow':
                # only start requests that carry an execution id
                if not (m.args.get('wf_ex_id')):
                    return
            k = int(round(1.0 / dup['p']))
            if sim.draw(k, '?dup') != k - 1:
                return
            for c in range(dup['copies']):
                d = dup['delays'][sim.draw(len(dup['delays']), '?dupdelay')]
                cp = net_.duplicate(m, extra_delay=d,
                                    redelivered=(m.method == 'run_action'))
                me.dup_made.append((m.method, cp.label))

        net.fault_hook = hook

        def on_deliver(m, node):
            if m.method == 'run_action':
                aid = _plain_id(m.args.get('action_ex_id'))
                me.run_delivered.setdefault(aid, []).append(
                    bool(m.ctx.get('redelivered')))

        net.on_deliver = on_deliver
        orig_send = net.send

        def send(topic, method, ctx, kwargs, want_reply, target=None):
            t = sim.me()
            if method == 'on_action_complete' and t is not None and \
                    (t.kind in ('rpc', 'action') and
                     'run_action' in t.label):
                aid = kwargs.get('action_ex_id')
                me.results_sent[aid] = me.results_sent.get(aid, 0) + 1
            return orig_send(topic, method, ctx, kwargs, want_reply, target)

        net.send = send


def _plain_id(v):
    import json
    if isinstance(v, str) and v.startswith('"'):
        try:
            return json.loads(v)
        except Exception:
            return v
    return v


def execute(case):
    scheds = None
    if isinstance(case.get('schedule'), dict):
        scheds = case['schedule']['multi']
    runs = []
    for i, dup in enumerate([None, case.get('dup')]):
        c = dict(case)
        c['schedule'] = scheds[i] if scheds else None
        r6 = Runner6(c, dup)
        res = r6.run()
        res.extra['r6'] = r6
        runs.append(res)
    base, dupd = runs
    out = dupd
    out.extra['base'] = base
    out.extra['multi_schedule'] = [
        [list(x) for x in r.sim.schedule] if r.sim else [] for r in runs]
    out.extra['multi_digest'] = hashlib.sha1('|'.join(
        r.sim.log_digest() if r.sim else '' for r in runs).encode()
    ).hexdigest()
    if base.status != 'ok' and out.status == 'ok':
        out.status = base.status
        out.reason = 'baseline: ' + base.reason
    return out


def evaluate(case, res):
    out = []
    base = res.extra['base']
    r6 = res.extra['r6']
    sigx = progcase.tag_signature(case)
    dup_methods = set(m for m, _ in r6.dup_made)
    # executor-level facts
    body_runs = {}
    for step, tag, item, aid, n, rerun in res.world_info['action_runs']:
        body_runs.setdefault(aid, []).append(rerun)
    for aid, flags in r6.run_delivered.items():
        runs = len(body_runs.get(aid, []))
        safe = (res.snap['action'].get(aid) or {}).get(
            'runtime_context', {}) or {}
        safe = bool(safe.get('safe_rerun'))
        red = sum(1 for f in flags if f)
        fresh = len(flags) - red
        allowed = fresh + (red if safe else 0)
        lab = res.labels.any(aid)
        if runs > allowed:
            out.append(('C06.redelivered_ran' if not safe else
                        'C06.action_ran_twice',
                        'action %s: body ran %d times for %d fresh and %d '
                        'redelivered requests (safe-rerun=%s)' % (
                            lab, runs, fresh, red, safe), sigx))
        sent = r6.results_sent.get(aid, 0)
        if sent > len(flags):
            out.append(('C06.result_accepted_twice',
                        'executor sent %d results for %d run_action '
                        'requests of %s' % (sent, len(flags), lab), sigx))
    # no second acceptance / duplicate rows
    from checks import trace
    for inv, msg, sig in trace.lifecycle(case, res):
        if inv == 'C03.action_refinalised':
            out.append(('C06.result_accepted_twice', msg, sigx))
    # exception discipline: only the documented rejection, only on dups
    for kind, where, e, tb in res.foreign:
        if (isinstance(e, ValueError) or
                type(e).__name__ == 'RemoteError') and \
                'already completed' in str(e) and r6.dup_made:
            # the documented rejection (also as it travels back to a
            # synchronous caller as RemoteError)
            continue
        out.append(('C06.differs_from_single',
                    'unexpected %s in %s: %s' % (type(e).__name__, where,
                                                 str(e)[:200]),
                    progcase.tag_signature(
                        case, progcase.exc_signature(e))))
    # differential vs. the duplicate-free run
    rr, rrec = progcase.reference(case)
    res.extra['ref_exact'] = rr.exact and not rr.racy_tasks
    if out or not res.extra['ref_exact'] or rr.state == 'NOT_CREATED':
        return out
    a = c02.masked(base.canon, rrec)
    b = c02.masked(res.canon, rrec)
    if 'run_action' in dup_methods:
        # a redelivered unsafe action legitimately ends in an error result
        # and the run then follows its error handling: only the executor
        # level facts above are decided for these runs
        return out
    if observe.canon_json(a) != observe.canon_json(b):
        d = c02.first_diff(a, b)
        inv = 'C06.differs_from_single'
        if '/counts/task_execs' in d or 'only in second' in d and \
                '/tasks/' in d:
            inv = 'C06.duplicate_task'
        elif '/counts/action_execs' in d or '/n_execs' in d:
            inv = 'C06.duplicate_action'
        out.append((inv, 'run with duplicates (%s) differs from the '
                    'duplicate-free run: %s' % (
                        sorted(dup_methods), d), sigx))
    return out


def nontrivial(case, res):
    return len(res.extra['r6'].dup_made) >= 1 and \
        bool(res.extra.get('ref_exact'))


def probes(case, res):
    r6 = res.extra['r6']
    p = {'dups_made': len(r6.dup_made),
         'rejected_already_completed': sum(
             1 for k, w, e, tb in res.foreign
             if isinstance(e, ValueError) and 'already completed' in str(e)),
         'redelivered_run_action': sum(
             sum(1 for f in fl if f) for fl in r6.run_delivered.values())}
    for m, _ in r6.dup_made:
        p['dup_' + m] = p.get('dup_' + m, 0) + 1
    return p


def shrink_candidates(case):
    d = case.get('dup') or {}
    if len(d.get('methods') or []) > 1:
        for m in d['methods']:
            c = copy.deepcopy(case)
            c['dup']['methods'] = [x for x in d['methods'] if x != m]
            c['schedule'] = None
            yield c
    if d.get('copies', 1) > 1:
        c = copy.deepcopy(case)
        c['dup']['copies'] = 1
        yield c
    for c in progcase.shrink_candidates(case):
        yield c
