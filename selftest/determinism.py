#!/venv/bin/python
"""Determinism self-test.

For every claimed property, N seeded cases are executed in four fresh
interpreters that differ in everything a run must not depend on:

  A  PYTHONHASHSEED=0, cases in ascending order
  B  PYTHONHASHSEED=0, cases in descending order (different history of the
     worker process: caches, id counters, leftover module state)
  C  PYTHONHASHSEED=4711, ascending order, started while the other batches
     keep all cores busy (different real-time interleaving of the host)
  D  PYTHONHASHSEED=99, every case executed twice in a row in one process

and the event-log digests (every scheduling decision, message, commit and
clock reading of the run) are compared case by case.  Exit 0 when all
agree; otherwise the differing cases are listed and the exit code is 1.

usage: selftest/determinism.py [--props C01,C02] [--cases 6] [--seed 1]
"""
import argparse
import json
import os
import subprocess
import sys
import time
import concurrent.futures as cf

ROOT = os.path.dirname(os.path.dirname(os.path.abspath(__file__)))
sys.path.insert(0, ROOT)


def child(prop, base, idxs, twice):
    import importlib
    import warnings
    warnings.simplefilter('ignore')
    from checks import common
    from mistralsim import world
    world.boot()
    mod = importlib.import_module('checks.%s' % prop.lower())
    out = {}
    for i in idxs:
        reps = []
        for rep in range(2 if twice else 1):
            case = mod.make_case(common.derive_seed(base, prop, i), 'quick')
            case['property'] = prop
            res, viols = common.run_one(case, mod)
            reps.append({
                'digest': common.log_digest(res), 'status': res.status,
                'steps': res.sim.step if res.sim else 0,
                'viols': sorted(v['invariant'] for v in viols)})
        out[str(i)] = reps
    sys.stdout.write('\n@@RESULT ' + json.dumps(out) + '\n')


def launch(prop, base, idxs, hashseed, twice):
    env = dict(os.environ, PYTHONHASHSEED=str(hashseed))
    cmd = [sys.executable, '-W', 'ignore', os.path.abspath(__file__),
           '--child', prop, str(base), ','.join(map(str, idxs)),
           '1' if twice else '0']
    p = subprocess.run(cmd, env=env, stdout=subprocess.PIPE,
                       stderr=subprocess.PIPE, timeout=1800)
    for line in p.stdout.decode(errors='replace').splitlines():
        if line.startswith('@@RESULT '):
            return json.loads(line[9:])
    raise RuntimeError('child failed (%s %s): %s' % (
        prop, hashseed, p.stderr.decode(errors='replace')[-2000:]))


def main():
    if len(sys.argv) > 1 and sys.argv[1] == '--child':
        prop, base, idxs, twice = sys.argv[2:6]
        return child(prop, int(base), [int(x) for x in idxs.split(',')],
                     twice == '1')
    ap = argparse.ArgumentParser()
    ap.add_argument('--props')
    ap.add_argument('--cases', type=int, default=6)
    ap.add_argument('--seed', type=int, default=1)
    ap.add_argument('--workers', type=int, default=16)
    args = ap.parse_args()
    if args.props:
        props = args.props.split(',')
    else:
        with open(os.path.join(ROOT, 'tools', 'claimed.json')) as f:
            props = sorted(json.load(f))
    t0 = time.time()
    idxs = list(range(args.cases))
    jobs = {}
    with cf.ThreadPoolExecutor(max_workers=args.workers) as ex:
        for p in props:
            jobs[(p, 'A')] = ex.submit(launch, p, args.seed, idxs, 0, False)
            jobs[(p, 'B')] = ex.submit(launch, p, args.seed, idxs[::-1], 0,
                                       False)
            jobs[(p, 'C')] = ex.submit(launch, p, args.seed, idxs, 4711,
                                       False)
            jobs[(p, 'D')] = ex.submit(launch, p, args.seed, idxs, 99, True)
    bad = []
    report = {}
    for p in props:
        res = {k: jobs[(p, k)].result() for k in 'ABCD'}
        n_ok = 0
        for i in map(str, idxs):
            ds = [res['A'][i][0], res['B'][i][0], res['C'][i][0],
                  res['D'][i][0], res['D'][i][1]]
            digests = set(d['digest'] for d in ds)
            if len(digests) == 1 and '' not in digests:
                n_ok += 1
            else:
                bad.append((p, i, [(d['digest'][:10], d['status'], d['steps'])
                                   for d in ds]))
        report[p] = {'cases': len(idxs), 'identical_in_5_executions': n_ok}
        print('%s: %d/%d cases identical across 5 executions '
              '(order, hash seed, repetition)' % (p, n_ok, len(idxs)))
    for b in bad:
        print('DIVERGED %s case %s: %s' % b)
    out = {'seed': args.seed, 'report': report, 'diverged': bad,
           'wall': time.time() - t0}
    with open(os.path.join(ROOT, 'selftest', 'determinism_report.json'),
              'w') as f:
        json.dump(out, f, indent=1, sort_keys=True)
    return 1 if bad else 0


if __name__ == '__main__':
    sys.exit(main())
