#!/bin/bash
# Sensitivity self-test: every seeded change under /verif/seeded/<id>/ is
# applied to a scratch worktree of /repo HEAD (never to /repo itself) and the
# checks named in its meta.json "caught_by" are run against that worktree in
# the quick tier (no evidence written). Prints one line per (change, check):
#   CAUGHT  - the check reported a VIOLATION (exit 1)
#   quiet   - the check stayed quiet within its budget
# usage: selftest/seeded_eval.sh [--budget SECONDS] [id ...]     (default: all)
# The worktree lives under /tmp/seeded_eval and is removed after each change.
budget=""
if [ "$1" = "--budget" ]; then budget="--budget $2"; shift 2; fi
cd "$(dirname "$0")/.."
ids=("$@")
[ ${#ids[@]} -eq 0 ] && ids=($(ls seeded | grep -E '^C[0-9]+-m[0-9]+$'))
mkdir -p /tmp/seeded_eval/logs
for id in "${ids[@]}"; do
  d=seeded/$id
  [ -f $d/patch.diff ] || continue
  checks=$(/venv/bin/python -c "import json;print(' '.join(json.load(open('$d/meta.json'))['caught_by']))")
  [ -z "$checks" ] && { echo "$id: no check claims to catch it (see meta.json note)"; continue; }
  wt=/tmp/seeded_eval/$id
  git -C /repo worktree remove --force $wt >/dev/null 2>&1
  git -C /repo worktree add --detach $wt HEAD -q || { echo "$id: cannot create worktree"; continue; }
  if ! git -C $wt apply "$PWD/$d/patch.diff" 2>/dev/null; then
    echo "$id: patch does not apply on the current HEAD"
    git -C /repo worktree remove --force $wt; continue
  fi
  for c in $checks; do
    log=/tmp/seeded_eval/logs/$id.$c.log
    PYTHONPATH=$wt VERIF_REPO=$wt VERIF_REPLAY_DIR=/tmp/seeded_eval/replays/$id \
      ./check $c --tier quick --no-evidence $budget > $log 2>&1
    rc=$?
    if [ $rc -eq 1 ]; then
      echo "$id $c CAUGHT  $(grep -m1 '^violation' $log | cut -c1-160)"
    else
      echo "$id $c quiet (rc=$rc)  $(grep "^$c: runs" $log | cut -c1-120)"
    fi
  done
  git -C /repo worktree remove --force $wt
done
rm -rf /tmp/seeded_eval/replays
